//! Verification model of the `rand` crate (0.8 API subset used by sd-jwt-rs).
//!
//! Contract modelled: a CSPRNG as far as a sequential program can observe it — every byte / every
//! ranged draw is an arbitrary value (a fresh `kani::any()` under Kani), there is no relation between
//! draws. Each draw is appended to a log (`model::DRAWS`) so that harnesses can state
//! "this output is the encoding of exactly the bytes drawn in this call".
//! Outside `cargo kani` (native validation of the models against the repo's test-suite) the draws come
//! from a xorshift generator seeded from the clock: good enough for the tests, never used for a claim.

pub mod model {
    /// bytes handed out by `fill_bytes`, in order
    pub static mut DRAWS: Vec<u8> = Vec::new();
    /// values handed out by `gen_range`, in order
    pub static mut RANGED: Vec<u32> = Vec::new();
    /// number of `fill_bytes` calls
    pub static mut FILL_CALLS: usize = 0;
    /// draws made through any other entry point (next_u32 / next_u64 / gen)
    pub static mut OTHER_DRAWS: usize = 0;
    /// fill_bytes calls served by a seeded (deterministic) generator
    pub static mut SEEDED_DRAWS: usize = 0;

    #[cfg(kani)]
    pub fn byte() -> u8 { kani::any() }
    #[cfg(kani)]
    pub fn word() -> u32 { kani::any() }

    #[cfg(not(kani))]
    static mut STATE: u64 = 0;
    #[cfg(not(kani))]
    fn step() -> u64 {
        unsafe {
            if STATE == 0 {
                let t = std::time::SystemTime::now().duration_since(std::time::UNIX_EPOCH).map(|d| d.as_nanos() as u64).unwrap_or(1);
                STATE = t | 1;
            }
            let mut x = STATE;
            x ^= x << 13; x ^= x >> 7; x ^= x << 17;
            STATE = x;
            x
        }
    }
    #[cfg(not(kani))]
    pub fn byte() -> u8 { (step() >> 24) as u8 }
    #[cfg(not(kani))]
    pub fn word() -> u32 { (step() >> 16) as u32 }
}

pub trait RngCore {
    fn next_u32(&mut self) -> u32;
    fn next_u64(&mut self) -> u64;
    fn fill_bytes(&mut self, dest: &mut [u8]);
}

pub trait SampleRange<T> {
    fn sample_single(self) -> T;
}
impl SampleRange<u32> for core::ops::Range<u32> {
    fn sample_single(self) -> u32 {
        assert!(self.start < self.end, "cannot sample empty range");
        let w = model::word();
        #[cfg(kani)]
        let v = { kani::assume(w >= self.start && w < self.end); w };
        #[cfg(not(kani))]
        let v = self.start + w % (self.end - self.start);
        #[allow(static_mut_refs)]
        unsafe { model::RANGED.push(v); }
        v
    }
}

/// destinations of `Rng::fill`
pub trait Fill {
    fn fill_from<R: RngCore + ?Sized>(&mut self, rng: &mut R);
}
impl Fill for [u8] {
    fn fill_from<R: RngCore + ?Sized>(&mut self, rng: &mut R) { rng.fill_bytes(self) }
}
impl<const N: usize> Fill for [u8; N] {
    fn fill_from<R: RngCore + ?Sized>(&mut self, rng: &mut R) { rng.fill_bytes(self) }
}
impl Fill for [u32] {
    fn fill_from<R: RngCore + ?Sized>(&mut self, rng: &mut R) { let mut i = 0; while i < self.len() { self[i] = rng.next_u32(); i += 1; } }
}
impl Fill for [u64] {
    fn fill_from<R: RngCore + ?Sized>(&mut self, rng: &mut R) { let mut i = 0; while i < self.len() { self[i] = rng.next_u64(); i += 1; } }
}
impl<const N: usize> Fill for [u64; N] {
    fn fill_from<R: RngCore + ?Sized>(&mut self, rng: &mut R) { let mut i = 0; while i < N { self[i] = rng.next_u64(); i += 1; } }
}
impl<const N: usize> Fill for [u32; N] {
    fn fill_from<R: RngCore + ?Sized>(&mut self, rng: &mut R) { let mut i = 0; while i < N { self[i] = rng.next_u32(); i += 1; } }
}

pub trait Rng: RngCore {
    fn gen_range<T, R: SampleRange<T>>(&mut self, range: R) -> T where Self: Sized { range.sample_single() }
    fn fill<T: Fill + ?Sized>(&mut self, dest: &mut T) where Self: Sized { dest.fill_from(self) }
    fn gen<T: Standard>(&mut self) -> T where Self: Sized { T::draw() }
}
/// types `Rng::gen` can produce in the model
pub trait Standard { fn draw() -> Self; }
impl Standard for u8 { fn draw() -> u8 { let b = model::byte(); #[allow(static_mut_refs)] unsafe { model::OTHER_DRAWS += 1; } b } }
impl Standard for u32 { fn draw() -> u32 { #[allow(static_mut_refs)] unsafe { model::OTHER_DRAWS += 1; } model::word() } }
impl Standard for u64 { fn draw() -> u64 { #[allow(static_mut_refs)] unsafe { model::OTHER_DRAWS += 1; } ((model::word() as u64) << 32) | model::word() as u64 } }
impl<const N: usize> Standard for [u8; N] { fn draw() -> [u8; N] { let mut a = [0u8; N]; let mut i = 0; while i < N { a[i] = model::byte(); i += 1; } #[allow(static_mut_refs)] unsafe { model::OTHER_DRAWS += 1; } a } }
impl<R: RngCore + ?Sized> Rng for R {}

#[derive(Clone, Debug, Default)]
pub struct ThreadRng { _p: () }

impl RngCore for ThreadRng {
    fn next_u32(&mut self) -> u32 { #[allow(static_mut_refs)] unsafe { model::OTHER_DRAWS += 1; } model::word() }
    fn next_u64(&mut self) -> u64 { #[allow(static_mut_refs)] unsafe { model::OTHER_DRAWS += 1; } ((model::word() as u64) << 32) | model::word() as u64 }
    fn fill_bytes(&mut self, dest: &mut [u8]) {
        #[allow(static_mut_refs)]
        unsafe { model::FILL_CALLS += 1; }
        let mut i = 0;
        while i < dest.len() {
            let b = model::byte();
            dest[i] = b;
            #[allow(static_mut_refs)]
            unsafe { model::DRAWS.push(b); }
            i += 1;
        }
    }
}

pub fn thread_rng() -> ThreadRng { ThreadRng::default() }

/// seedable generator: DETERMINISTIC function of its seed (that is its contract); output bytes are
/// seed[i % 32] ^ counter, enough for "same seed => same stream" to be visible to a harness
#[derive(Clone, Debug)]
pub struct StdRng { seed: [u8; 32], ctr: u64 }
pub trait SeedableRng: Sized {
    type Seed;
    fn from_seed(seed: Self::Seed) -> Self;
    fn from_entropy() -> Self;
    fn from_rng<R: RngCore>(rng: R) -> Result<Self, Error>;
}
#[derive(Debug)]
pub struct Error;
impl SeedableRng for StdRng {
    type Seed = [u8; 32];
    fn from_seed(seed: [u8; 32]) -> Self { StdRng { seed, ctr: 0 } }
    fn from_entropy() -> Self { let mut s = [0u8; 32]; OsRng.fill_bytes(&mut s); StdRng { seed: s, ctr: 0 } }
    fn from_rng<R: RngCore>(mut rng: R) -> Result<Self, Error> { let mut s = [0u8; 32]; rng.fill_bytes(&mut s); Ok(StdRng { seed: s, ctr: 0 }) }
}
impl RngCore for StdRng {
    fn next_u32(&mut self) -> u32 { let mut b = [0u8; 4]; self.fill_bytes(&mut b); u32::from_le_bytes(b) }
    fn next_u64(&mut self) -> u64 { let mut b = [0u8; 8]; self.fill_bytes(&mut b); u64::from_le_bytes(b) }
    fn fill_bytes(&mut self, dest: &mut [u8]) {
        #[allow(static_mut_refs)]
        unsafe { model::SEEDED_DRAWS += 1; }
        let mut i = 0;
        while i < dest.len() {
            dest[i] = self.seed[(self.ctr % 32) as usize] ^ (self.ctr as u8);
            self.ctr = self.ctr.wrapping_add(1);
            i += 1;
        }
    }
}
/// the operating system's generator: arbitrary bytes, logged separately from ThreadRng
#[derive(Clone, Copy, Debug, Default)]
pub struct OsRng;
impl RngCore for OsRng {
    fn next_u32(&mut self) -> u32 { #[allow(static_mut_refs)] unsafe { model::OTHER_DRAWS += 1; } model::word() }
    fn next_u64(&mut self) -> u64 { #[allow(static_mut_refs)] unsafe { model::OTHER_DRAWS += 1; } ((model::word() as u64) << 32) | model::word() as u64 }
    fn fill_bytes(&mut self, dest: &mut [u8]) {
        #[allow(static_mut_refs)]
        unsafe { model::OTHER_DRAWS += 1; }
        let mut i = 0;
        while i < dest.len() { dest[i] = model::byte(); i += 1; }
    }
}
pub mod rngs { pub use crate::{OsRng, StdRng, ThreadRng}; }
pub mod prelude { pub use crate::{thread_rng, Rng, RngCore, SeedableRng, StdRng, ThreadRng}; }
