//! Verification model of std::collections::HashMap: association list, linear search, no hashing.
use std::borrow::Borrow;
#[derive(Debug)]
pub struct HashMap<K, V> { entries: std::mem::ManuallyDrop<Vec<(K, V)>> }
impl<K: Clone, V: Clone> Clone for HashMap<K, V> {
    fn clone(&self) -> Self {
        let mut v: Vec<(K, V)> = Vec::with_capacity(self.entries.len());
        let mut i = 0;
        while i < self.entries.len() {
            let e = &self.entries[i];
            v.push((e.0.clone(), e.1.clone()));
            i += 1;
        }
        HashMap { entries: std::mem::ManuallyDrop::new(v) }
    }
}
impl<K, V> Default for HashMap<K, V> { fn default() -> Self { HashMap { entries: std::mem::ManuallyDrop::new(Vec::new()) } } }
impl<K: Eq, V> HashMap<K, V> {
    pub fn new() -> Self { Self::default() }
    fn find<Q: ?Sized + Eq>(&self, k: &Q) -> (bool, usize) where K: Borrow<Q> {
        let mut i = 0;
        let mut found = false;
        let mut idx = 0;
        while i < self.entries.len() {
            if !found && self.entries[i].0.borrow() == k { found = true; idx = i; }
            i += 1;
        }
        (found, idx)
    }
    pub fn insert(&mut self, k: K, v: V) -> Option<V> {
        let (f, i) = self.find(&k);
        if f { Some(std::mem::replace(&mut self.entries[i].1, v)) } else { self.entries.push((k, v)); None }
    }
    pub fn get<Q: ?Sized + Eq>(&self, k: &Q) -> Option<&V> where K: Borrow<Q> {
        let mut i = 0;
        let mut res: Option<&V> = None;
        while i < self.entries.len() {
            if res.is_none() && self.entries[i].0.borrow() == k { res = Some(&self.entries[i].1); }
            i += 1;
        }
        res
    }
    pub fn contains_key<Q: ?Sized + Eq>(&self, k: &Q) -> bool where K: Borrow<Q> { self.find(k).0 }
    pub fn len(&self) -> usize { self.entries.len() }
    pub fn is_empty(&self) -> bool { self.entries.is_empty() }
    pub fn iter(&self) -> impl Iterator<Item = (&K, &V)> { self.entries.iter().map(|e| (&e.0, &e.1)) }
}
impl<K: Eq, V, Q: ?Sized + Eq> std::ops::Index<&Q> for HashMap<K, V> where K: Borrow<Q> {
    type Output = V;
    fn index(&self, k: &Q) -> &V { self.get(k).expect("no entry found for key") }
}
impl<K: Eq, V> FromIterator<(K, V)> for HashMap<K, V> {
    fn from_iter<T: IntoIterator<Item = (K, V)>>(it: T) -> Self { let mut m = Self::new(); for (k, v) in it { m.insert(k, v); } m }
}
impl<K: serde::Serialize, V: serde::Serialize> serde::Serialize for HashMap<K, V> {
    fn serialize<S: serde::Serializer>(&self, s: S) -> Result<S::Ok, S::Error> {
        use serde::ser::SerializeMap;
        let mut m = s.serialize_map(Some(self.entries.len()))?;
        for (k, v) in self.entries.iter() { m.serialize_entry(k, v)?; }
        m.end()
    }
}
