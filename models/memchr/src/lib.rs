//! Verification model of the `memchr` crate: byte-at-a-time loops, no SIMD, no alignment tricks.
pub fn memchr(n: u8, h: &[u8]) -> Option<usize> { let mut i = 0; while i < h.len() { if h[i] == n { return Some(i); } i += 1; } None }
pub fn memchr2(a: u8, b: u8, h: &[u8]) -> Option<usize> { let mut i = 0; while i < h.len() { if h[i] == a || h[i] == b { return Some(i); } i += 1; } None }
pub fn memchr3(a: u8, b: u8, c: u8, h: &[u8]) -> Option<usize> { let mut i = 0; while i < h.len() { if h[i] == a || h[i] == b || h[i] == c { return Some(i); } i += 1; } None }
pub fn memrchr(n: u8, h: &[u8]) -> Option<usize> { let mut i = h.len(); while i > 0 { i -= 1; if h[i] == n { return Some(i); } } None }
pub struct Memchr<'h> { n: u8, h: &'h [u8], pos: usize }
pub fn memchr_iter<'h>(n: u8, h: &'h [u8]) -> Memchr<'h> { Memchr { n, h, pos: 0 } }
impl<'h> Iterator for Memchr<'h> {
    type Item = usize;
    fn next(&mut self) -> Option<usize> {
        while self.pos < self.h.len() { let i = self.pos; self.pos += 1; if self.h[i] == self.n { return Some(i); } }
        None
    }
}
