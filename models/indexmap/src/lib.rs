//! Verification model of `indexmap::IndexMap`: an insertion-ordered association list
//! (Vec<(K, V)>, linear search by `Eq`). Observable behaviour is that of IndexMap for the
//! API subset serde_json's `preserve_order` Map uses; no hashing takes place.
pub mod map {
    use std::borrow::Borrow;
    use std::fmt;
    use std::marker::PhantomData;

    pub struct IndexMap<K, V, S = ()> {
        pub(crate) entries: std::mem::ManuallyDrop<Vec<(K, V)>>,
        _s: PhantomData<S>,
    }

    impl<K, V, S> IndexMap<K, V, S> {
        pub fn new() -> Self { IndexMap { entries: std::mem::ManuallyDrop::new(Vec::new()), _s: PhantomData } }
        pub fn with_capacity(_n: usize) -> Self { Self::new() }
        pub fn clear(&mut self) { self.entries.clear() }
        pub fn len(&self) -> usize { self.entries.len() }
        pub fn is_empty(&self) -> bool { self.entries.is_empty() }
        pub fn iter(&self) -> Iter<'_, K, V> { Iter { it: self.entries.iter() } }
        pub fn iter_mut(&mut self) -> IterMut<'_, K, V> { IterMut { it: self.entries.iter_mut() } }
        pub fn keys(&self) -> Keys<'_, K, V> { Keys { it: self.entries.iter() } }
        pub fn values(&self) -> Values<'_, K, V> { Values { it: self.entries.iter() } }
        pub fn values_mut(&mut self) -> ValuesMut<'_, K, V> { ValuesMut { it: self.entries.iter_mut() } }
        pub fn into_values(self) -> IntoValues<K, V> { IntoValues { it: std::mem::ManuallyDrop::into_inner(self.entries).into_iter() } }
        pub fn retain<F: FnMut(&K, &mut V) -> bool>(&mut self, mut f: F) {
            self.entries.retain_mut(|(k, v)| f(k, v));
        }
    }

    impl<K: Eq, V, S> IndexMap<K, V, S> {
        /// (found, index). A plain pair instead of Option<usize>: when CBMC merges the "found" and
        /// "not found" paths an Option's payload would be undefined on one side and every later
        /// `entries[i]` would become a read at an unconstrained offset.
        fn find<Q: ?Sized + Eq>(&self, key: &Q) -> (bool, usize) where K: Borrow<Q> {
            let mut i = 0;
            let mut found = false;
            let mut idx = 0;
            while i < self.entries.len() {
                if !found && self.entries[i].0.borrow() == key { found = true; idx = i; }
                i += 1;
            }
            (found, idx)
        }
        pub fn get<Q: ?Sized + Eq>(&self, key: &Q) -> Option<&V> where K: Borrow<Q> {
            let mut i = 0;
            let mut res: Option<&V> = None;
            while i < self.entries.len() {
                if res.is_none() && self.entries[i].0.borrow() == key { res = Some(&self.entries[i].1); }
                i += 1;
            }
            res
        }
        pub fn get_mut<Q: ?Sized + Eq>(&mut self, key: &Q) -> Option<&mut V> where K: Borrow<Q> {
            let (f, i) = self.find(key);
            if f { Some(&mut self.entries[i].1) } else { None }
        }
        pub fn get_key_value<Q: ?Sized + Eq>(&self, key: &Q) -> Option<(&K, &V)> where K: Borrow<Q> {
            let (f, i) = self.find(key);
            if f { let e = &self.entries[i]; Some((&e.0, &e.1)) } else { None }
        }
        pub fn contains_key<Q: ?Sized + Eq>(&self, key: &Q) -> bool where K: Borrow<Q> { self.find(key).0 }
        pub fn insert(&mut self, k: K, v: V) -> Option<V> {
            let (f, i) = self.find(&k);
            if f { Some(std::mem::replace(&mut self.entries[i].1, v)) } else { self.entries.push((k, v)); None }
        }
        pub fn shift_insert(&mut self, index: usize, k: K, v: V) -> Option<V> {
            let (f, i) = self.find(&k);
            if f {
                let old = std::mem::replace(&mut self.entries[i].1, v);
                let e = self.entries.remove(i);
                self.entries.insert(index, e);
                Some(old)
            } else { self.entries.insert(index, (k, v)); None }
        }
        pub fn swap_remove<Q: ?Sized + Eq>(&mut self, key: &Q) -> Option<V> where K: Borrow<Q> {
            self.swap_remove_entry(key).map(|e| e.1)
        }
        pub fn swap_remove_entry<Q: ?Sized + Eq>(&mut self, key: &Q) -> Option<(K, V)> where K: Borrow<Q> {
            let (f, i) = self.find(key);
            if f { Some(self.entries.swap_remove(i)) } else { None }
        }
        pub fn shift_remove<Q: ?Sized + Eq>(&mut self, key: &Q) -> Option<V> where K: Borrow<Q> {
            self.shift_remove_entry(key).map(|e| e.1)
        }
        pub fn shift_remove_entry<Q: ?Sized + Eq>(&mut self, key: &Q) -> Option<(K, V)> where K: Borrow<Q> {
            let (f, i) = self.find(key);
            if f { Some(self.entries.remove(i)) } else { None }
        }
        pub fn entry(&mut self, key: K) -> Entry<'_, K, V> {
            let (f, i) = self.find(&key);
            if f { Entry::Occupied(OccupiedEntry { entries: &mut self.entries, idx: i }) }
            else { Entry::Vacant(VacantEntry { entries: &mut self.entries, key }) }
        }
    }

    impl<K: Ord, V, S> IndexMap<K, V, S> {
        pub fn sort_unstable_keys(&mut self) { self.entries.sort_unstable_by(|a, b| a.0.cmp(&b.0)); }
        pub fn sort_keys(&mut self) { self.entries.sort_by(|a, b| a.0.cmp(&b.0)); }
    }

    impl<K, V, S> Default for IndexMap<K, V, S> { fn default() -> Self { Self::new() } }
    impl<K: Clone, V: Clone, S> Clone for IndexMap<K, V, S> {
        /// element-wise push instead of Vec::clone: std's to_vec writes through MaybeUninit (a union),
        /// after which CBMC no longer propagates the constants stored in the copy
        fn clone(&self) -> Self {
            let mut v: Vec<(K, V)> = Vec::with_capacity(self.entries.len());
            let mut i = 0;
            while i < self.entries.len() {
                let e = &self.entries[i];
                v.push((e.0.clone(), e.1.clone()));
                i += 1;
            }
            IndexMap { entries: std::mem::ManuallyDrop::new(v), _s: PhantomData }
        }
    }
    impl<K: Eq, V: PartialEq, S> PartialEq for IndexMap<K, V, S> {
        fn eq(&self, other: &Self) -> bool {
            if self.len() != other.len() { return false; }
            self.entries.iter().all(|(k, v)| other.get(k).map_or(false, |ov| *v == *ov))
        }
    }
    impl<K: Eq, V: Eq, S> Eq for IndexMap<K, V, S> {}
    impl<K: fmt::Debug, V: fmt::Debug, S> fmt::Debug for IndexMap<K, V, S> {
        fn fmt(&self, f: &mut fmt::Formatter<'_>) -> fmt::Result { f.debug_map().entries(self.iter()).finish() }
    }
    impl<K: Eq, V, S, Q: ?Sized + Eq> std::ops::Index<&Q> for IndexMap<K, V, S> where K: Borrow<Q> {
        type Output = V;
        fn index(&self, key: &Q) -> &V { self.get(key).expect("no entry found for key") }
    }
    impl<K: Eq, V, S> Extend<(K, V)> for IndexMap<K, V, S> {
        fn extend<T: IntoIterator<Item = (K, V)>>(&mut self, iter: T) { for (k, v) in iter { self.insert(k, v); } }
    }
    impl<K: Eq, V, S> FromIterator<(K, V)> for IndexMap<K, V, S> {
        fn from_iter<T: IntoIterator<Item = (K, V)>>(iter: T) -> Self { let mut m = Self::new(); m.extend(iter); m }
    }
    impl<K, V, S> IntoIterator for IndexMap<K, V, S> {
        type Item = (K, V); type IntoIter = IntoIter<K, V>;
        fn into_iter(self) -> IntoIter<K, V> { IntoIter { it: std::mem::ManuallyDrop::into_inner(self.entries).into_iter() } }
    }
    impl<'a, K, V, S> IntoIterator for &'a IndexMap<K, V, S> {
        type Item = (&'a K, &'a V); type IntoIter = Iter<'a, K, V>;
        fn into_iter(self) -> Iter<'a, K, V> { self.iter() }
    }
    impl<'a, K, V, S> IntoIterator for &'a mut IndexMap<K, V, S> {
        type Item = (&'a K, &'a mut V); type IntoIter = IterMut<'a, K, V>;
        fn into_iter(self) -> IterMut<'a, K, V> { self.iter_mut() }
    }

    pub enum Entry<'a, K, V> { Occupied(OccupiedEntry<'a, K, V>), Vacant(VacantEntry<'a, K, V>) }
    pub struct OccupiedEntry<'a, K, V> { entries: &'a mut Vec<(K, V)>, idx: usize }
    pub struct VacantEntry<'a, K, V> { entries: &'a mut Vec<(K, V)>, key: K }
    impl<'a, K, V> VacantEntry<'a, K, V> {
        pub fn key(&self) -> &K { &self.key }
        pub fn insert(self, v: V) -> &'a mut V {
            self.entries.push((self.key, v));
            let n = self.entries.len();
            &mut self.entries[n - 1].1
        }
    }
    impl<'a, K, V> OccupiedEntry<'a, K, V> {
        pub fn key(&self) -> &K { &self.entries[self.idx].0 }
        pub fn get(&self) -> &V { &self.entries[self.idx].1 }
        pub fn get_mut(&mut self) -> &mut V { &mut self.entries[self.idx].1 }
        pub fn into_mut(self) -> &'a mut V { &mut self.entries[self.idx].1 }
        pub fn insert(&mut self, v: V) -> V { std::mem::replace(&mut self.entries[self.idx].1, v) }
        pub fn swap_remove(self) -> V { self.entries.swap_remove(self.idx).1 }
        pub fn shift_remove(self) -> V { self.entries.remove(self.idx).1 }
        pub fn swap_remove_entry(self) -> (K, V) { self.entries.swap_remove(self.idx) }
        pub fn shift_remove_entry(self) -> (K, V) { self.entries.remove(self.idx) }
        #[allow(deprecated)] pub fn remove(self) -> V { self.swap_remove() }
        #[allow(deprecated)] pub fn remove_entry(self) -> (K, V) { self.swap_remove_entry() }
    }

    macro_rules! iter_impl {
        ($name:ident<$($lt:lifetime,)? K, V>, $inner:ty, $item:ty, |$e:ident| $map:expr) => {
            pub struct $name<$($lt,)? K, V> { it: $inner }
            impl<$($lt,)? K, V> Iterator for $name<$($lt,)? K, V> {
                type Item = $item;
                fn next(&mut self) -> Option<$item> { match self.it.next() { Some($e) => Some($map), None => None } }
                fn size_hint(&self) -> (usize, Option<usize>) { self.it.size_hint() }
            }
            impl<$($lt,)? K, V> DoubleEndedIterator for $name<$($lt,)? K, V> {
                fn next_back(&mut self) -> Option<$item> { match self.it.next_back() { Some($e) => Some($map), None => None } }
            }
            impl<$($lt,)? K, V> ExactSizeIterator for $name<$($lt,)? K, V> { fn len(&self) -> usize { self.it.len() } }
            impl<$($lt,)? K, V> std::iter::FusedIterator for $name<$($lt,)? K, V> {}
            impl<$($lt,)? K, V> fmt::Debug for $name<$($lt,)? K, V> { fn fmt(&self, f: &mut fmt::Formatter<'_>) -> fmt::Result { f.write_str(stringify!($name)) } }
        };
    }
    iter_impl!(Iter<'a, K, V>, std::slice::Iter<'a, (K, V)>, (&'a K, &'a V), |e| (&e.0, &e.1));
    iter_impl!(IterMut<'a, K, V>, std::slice::IterMut<'a, (K, V)>, (&'a K, &'a mut V), |e| (&e.0, &mut e.1));
    iter_impl!(Keys<'a, K, V>, std::slice::Iter<'a, (K, V)>, &'a K, |e| &e.0);
    iter_impl!(Values<'a, K, V>, std::slice::Iter<'a, (K, V)>, &'a V, |e| &e.1);
    iter_impl!(ValuesMut<'a, K, V>, std::slice::IterMut<'a, (K, V)>, &'a mut V, |e| &mut e.1);
    iter_impl!(IntoIter<K, V>, std::vec::IntoIter<(K, V)>, (K, V), |e| e);
    iter_impl!(IntoValues<K, V>, std::vec::IntoIter<(K, V)>, V, |e| e.1);
    impl<'a, K, V> Clone for Iter<'a, K, V> { fn clone(&self) -> Self { Iter { it: self.it.clone() } } }
    impl<'a, K, V> Clone for Keys<'a, K, V> { fn clone(&self) -> Self { Keys { it: self.it.clone() } } }
    impl<'a, K, V> Clone for Values<'a, K, V> { fn clone(&self) -> Self { Values { it: self.it.clone() } } }
}
pub use map::IndexMap;
