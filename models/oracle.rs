//! Ideal-hash oracle used in place of SHA-256 + base64url when a harness switches it on.
//!
//! Contract: `base64_hash` is a deterministic function; distinct inputs have distinct digests
//! (collision resistance as injectivity); a digest of a not-yet-seen input is an ARBITRARY string of
//! `DIGEST_LEN` bytes over `a..=ALPHA_MAX` (fresh symbolic bytes), so every order / equality pattern
//! the real hash could produce among a handful of digests is covered.
//! Every call is logged (`HASH_INPUTS`) so harnesses can assert WHAT was hashed.
#![allow(static_mut_refs)]
use std::mem::ManuallyDrop;

pub static mut HASH_ON: bool = false;
pub static mut DIGEST_LEN: usize = 2;
pub static mut ALPHA_MAX: u8 = b'd';
pub static mut HASH_INPUTS: ManuallyDrop<Vec<Vec<u8>>> = ManuallyDrop::new(Vec::new());
pub static mut HASH_DIGESTS: ManuallyDrop<Vec<String>> = ManuallyDrop::new(Vec::new());
/// number of calls (including repeated inputs)
pub static mut HASH_CALLS: usize = 0;

pub fn hash_on(len: usize, alpha_max: u8) {
    unsafe { HASH_ON = true; DIGEST_LEN = len; ALPHA_MAX = alpha_max; }
}

fn bytes_eq(a: &[u8], b: &[u8]) -> bool {
    if a.len() != b.len() { return false; }
    let mut i = 0;
    while i < a.len() {
        if a[i] != b[i] { return false; }
        i += 1;
    }
    true
}

pub fn hash_hook(data: &[u8]) -> Option<String> {
    unsafe {
        if !HASH_ON { return None; }
        HASH_CALLS += 1;
        let mut i = 0;
        while i < HASH_INPUTS.len() {
            if bytes_eq(&HASH_INPUTS[i], data) { return Some(HASH_DIGESTS[i].clone()); }
            i += 1;
        }
        // built from bytes: String::push(char) would make the length symbolic (len_utf8)
        let mut dv: Vec<u8> = Vec::with_capacity(DIGEST_LEN);
        let mut k = 0;
        while k < DIGEST_LEN {
            let b: u8 = kani::any();
            kani::assume(b >= b'a' && b <= ALPHA_MAX);
            dv.push(b);
            k += 1;
        }
        let d = String::from_utf8_unchecked(dv);
        let mut j = 0;
        while j < HASH_DIGESTS.len() {
            kani::assume(!bytes_eq(HASH_DIGESTS[j].as_bytes(), d.as_bytes()));
            j += 1;
        }
        let mut iv: Vec<u8> = Vec::with_capacity(data.len());
        let mut q = 0;
        while q < data.len() { iv.push(data[q]); q += 1; }
        HASH_INPUTS.push(iv);
        HASH_DIGESTS.push(d.clone());
        Some(d)
    }
}

pub fn hash_inputs() -> &'static Vec<Vec<u8>> { unsafe { &HASH_INPUTS } }
pub fn hash_digests() -> &'static Vec<String> { unsafe { &HASH_DIGESTS } }

// ------------------------------------------------------------------------------------------------
// Disclosure hook: stands in for SDJWTDisclosure::new (salt + JSON text + base64 + SHA-256) when a
// harness about the MARKING logic switches it on. The n-th disclosure gets the opaque text "r<n>"
// and the ideal-hash digest of that text; (name?, value) are logged so that the harness can state
// which claims were turned into disclosures.
pub static mut DISC_ON: bool = false;
pub static mut DISC_NAMES: ManuallyDrop<Vec<Option<String>>> = ManuallyDrop::new(Vec::new());
pub static mut DISC_VALUES: ManuallyDrop<Vec<serde_json::Value>> = ManuallyDrop::new(Vec::new());
pub static mut DISC_HASHES: ManuallyDrop<Vec<String>> = ManuallyDrop::new(Vec::new());

pub fn disclosure_on() { unsafe { DISC_ON = true; } }

pub fn disclosure_hook(key: &Option<String>, value: *const (), type_name: &'static str) -> Option<crate::disclosure::SDJWTDisclosure> {
    unsafe {
        if !DISC_ON { return None; }
        let n = DISC_NAMES.len();
        let mut raw: Vec<u8> = Vec::with_capacity(2);
        raw.push(b'r');
        raw.push(b'0' + (n % 10) as u8);
        let hash = match hash_hook(&raw) { Some(h) => h, None => return None };
        DISC_NAMES.push(match key { Some(k) => Some(k.clone()), None => None });
        if type_name == std::any::type_name::<serde_json::Value>() {
            // SAFETY: V is serde_json::Value (same type name)
            let v: &serde_json::Value = &*(value as *const serde_json::Value);
            DISC_VALUES.push(v.clone());
        } else {
            DISC_VALUES.push(serde_json::Value::Null);
        }
        DISC_HASHES.push(hash.clone());
        Some(crate::disclosure::SDJWTDisclosure { raw_b64: String::from_utf8_unchecked(raw), hash })
    }
}
