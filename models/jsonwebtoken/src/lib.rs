//! Verification model of `jsonwebtoken` 9.3.1 for the sd-jwt-rs checks.
//!
//! What is kept from the real crate (copied from the 9.3.1 sources, see the `// verbatim` marks):
//!   * `Algorithm`, `Algorithm::from_str`, `Algorithm::family`, `AlgorithmFamily`;
//!   * `Validation::new` defaults, `set_audience`, `set_required_spec_claims`;
//!   * `validate()` — required claims, exp / nbf arithmetic with leeway, aud / iss / sub;
//!   * the order of the checks made by `decode()`: key family vs. allowed algorithms, token shape,
//!     header alg vs. allowed algorithms, signature, claims, `validate()`.
//! What is modelled:
//!   * the signature scheme is an IDEAL PRIMITIVE. A token is an opaque string registered in
//!     `model::TOKENS` together with the header and claims it encodes and the identity of the only
//!     key under which its signature verifies (`valid_under`, `NO_KEY` for a forged / altered
//!     token). `verify` answers `key.id == valid_under` and logs the question. A token string that
//!     is not registered does not parse (`InvalidToken`).
//!   * `encode()` logs (header, claims as serde_json::Value, key) and returns a fresh opaque token
//!     `"h<n>.p<n>.s<n>"`, registered as valid under the signing key's identity.
//!   * `get_current_timestamp()` returns `model::NOW`, which harnesses set to `kani::any()`.
//!   * `Jwk` is an opaque JSON object with a `kty` (and `x`) member; `DecodingKey::from_jwk` derives
//!     the key family from `kty` and the key identity from the bytes of `x`.
//!   * `HashSet` is replaced by a vector set (std's hashing is not executable under CBMC).
//! The base64 / JSON text layer of JWTs and all cryptography are outside the model.

pub mod errors;
pub mod jwk;
pub mod model;

/// `jsonwebtoken::crypto`: the raw signature primitive. Like the real one it does NOT compare the
/// key family with the algorithm family (for HS* the real crate keys the HMAC with whatever bytes the
/// DecodingKey holds): the verdict is "`message`.`signature` is a registered token text whose
/// signature verifies under this key identity". Every call is logged.
pub mod crypto {
    use crate::errors::Result;
    use crate::{Algorithm, DecodingKey};
    pub fn verify(signature: &str, message: &[u8], key: &DecodingKey, algorithm: Algorithm) -> Result<bool> {
        // byte-wise: String::push(char) would make the length depend on len_utf8 of each byte
        let mut tv: Vec<u8> = Vec::with_capacity(message.len() + 1 + signature.len());
        let mut i = 0;
        while i < message.len() { tv.push(message[i]); i += 1; }
        tv.push(b'.');
        let sb = signature.as_bytes();
        let mut j = 0;
        while j < sb.len() { tv.push(sb[j]); j += 1; }
        // (message and signature are parts of a &str token: valid UTF-8; from_utf8 would run core's
        // alignment-dependent validation loop)
        let text = unsafe { String::from_utf8_unchecked(tv) };
        Ok(match crate::model::lookup(&text) {
            Some(idx) => crate::model::verify_raw(idx, &text, key, algorithm),
            None => false,
        })
    }
}

use errors::{new_error, Error, ErrorKind, Result};
use serde::Serialize;
use serde_json::{Map, Value};
use std::str::FromStr;

// ---------------------------------------------------------------------------------------------
// algorithms.rs — verbatim
#[derive(Debug, Eq, PartialEq, Copy, Clone)]
pub enum AlgorithmFamily {
    Hmac,
    Rsa,
    Ec,
    Ed,
}

#[allow(clippy::upper_case_acronyms)]
#[derive(Debug, Default, PartialEq, Eq, Hash, Copy, Clone, serde::Serialize, serde::Deserialize)]
pub enum Algorithm {
    #[default]
    HS256,
    HS384,
    HS512,
    ES256,
    ES384,
    RS256,
    RS384,
    RS512,
    PS256,
    PS384,
    PS512,
    EdDSA,
}

impl FromStr for Algorithm {
    type Err = Error;
    fn from_str(s: &str) -> Result<Self> {
        match s {
            "HS256" => Ok(Algorithm::HS256),
            "HS384" => Ok(Algorithm::HS384),
            "HS512" => Ok(Algorithm::HS512),
            "ES256" => Ok(Algorithm::ES256),
            "ES384" => Ok(Algorithm::ES384),
            "RS256" => Ok(Algorithm::RS256),
            "RS384" => Ok(Algorithm::RS384),
            "PS256" => Ok(Algorithm::PS256),
            "PS384" => Ok(Algorithm::PS384),
            "PS512" => Ok(Algorithm::PS512),
            "RS512" => Ok(Algorithm::RS512),
            "EdDSA" => Ok(Algorithm::EdDSA),
            _ => Err(ErrorKind::InvalidAlgorithmName.into()),
        }
    }
}

impl Algorithm {
    pub fn family(self) -> AlgorithmFamily {
        match self {
            Algorithm::HS256 | Algorithm::HS384 | Algorithm::HS512 => AlgorithmFamily::Hmac,
            Algorithm::RS256
            | Algorithm::RS384
            | Algorithm::RS512
            | Algorithm::PS256
            | Algorithm::PS384
            | Algorithm::PS512 => AlgorithmFamily::Rsa,
            Algorithm::ES256 | Algorithm::ES384 => AlgorithmFamily::Ec,
            Algorithm::EdDSA => AlgorithmFamily::Ed,
        }
    }
}

// ---------------------------------------------------------------------------------------------
// header.rs — same public fields, same `new`
#[derive(Debug, Clone, PartialEq, Eq)]
pub struct Header {
    pub typ: Option<String>,
    pub alg: Algorithm,
    pub cty: Option<String>,
    pub jku: Option<String>,
    pub jwk: Option<jwk::Jwk>,
    pub kid: Option<String>,
    pub x5u: Option<String>,
    pub x5c: Option<Vec<String>>,
    pub x5t: Option<String>,
    pub x5t_s256: Option<String>,
}

impl Header {
    pub fn new(algorithm: Algorithm) -> Self {
        Header {
            typ: Some("JWT".to_string()),
            alg: algorithm,
            cty: None,
            jku: None,
            jwk: None,
            kid: None,
            x5u: None,
            x5c: None,
            x5t: None,
            x5t_s256: None,
        }
    }
}

impl Default for Header {
    fn default() -> Self {
        Header::new(Algorithm::default())
    }
}

// ---------------------------------------------------------------------------------------------
// keys: family + identity
#[derive(Clone, Debug, PartialEq, Eq)]
pub struct DecodingKey {
    pub family: AlgorithmFamily,
    pub id: u64,
}

#[derive(Clone, Debug, PartialEq, Eq)]
pub struct EncodingKey {
    pub family: AlgorithmFamily,
    pub id: u64,
}

pub fn bytes_id(b: &[u8]) -> u64 {
    // identity of a key given by bytes: first two bytes and the length (injective on the
    // 1-2 byte keys the harnesses use)
    let b0 = if !b.is_empty() { b[0] as u64 } else { 0 };
    let b1 = if b.len() > 1 { b[1] as u64 } else { 0 };
    (b.len() as u64) << 16 | b0 << 8 | b1
}

impl DecodingKey {
    pub fn model(family: AlgorithmFamily, id: u64) -> Self { DecodingKey { family, id } }
    pub fn from_secret(secret: &[u8]) -> Self { DecodingKey { family: AlgorithmFamily::Hmac, id: bytes_id(secret) } }
    pub fn from_ec_pem(key: &[u8]) -> Result<Self> { Ok(DecodingKey { family: AlgorithmFamily::Ec, id: bytes_id(key) }) }
    pub fn from_ed_pem(key: &[u8]) -> Result<Self> { Ok(DecodingKey { family: AlgorithmFamily::Ed, id: bytes_id(key) }) }
    pub fn from_rsa_pem(key: &[u8]) -> Result<Self> { Ok(DecodingKey { family: AlgorithmFamily::Rsa, id: bytes_id(key) }) }
    /// kty -> family as in the real `from_jwk`; identity = bytes of the `x` (`n`, `k`) member.
    pub fn from_jwk(jwk: &jwk::Jwk) -> Result<Self> {
        let (family, member) = match jwk.kty() {
            Some("RSA") => (AlgorithmFamily::Rsa, "n"),
            Some("EC") => (AlgorithmFamily::Ec, "x"),
            Some("OKP") => (AlgorithmFamily::Ed, "x"),
            Some("oct") => (AlgorithmFamily::Hmac, "k"),
            _ => return Err(new_error(ErrorKind::InvalidKeyFormat)),
        };
        match jwk.raw.get(member).and_then(Value::as_str) {
            Some(x) => Ok(DecodingKey { family, id: bytes_id(x.as_bytes()) }),
            None => Err(new_error(ErrorKind::InvalidKeyFormat)),
        }
    }
}

impl EncodingKey {
    pub fn model(family: AlgorithmFamily, id: u64) -> Self { EncodingKey { family, id } }
    pub fn from_secret(secret: &[u8]) -> Self { EncodingKey { family: AlgorithmFamily::Hmac, id: bytes_id(secret) } }
    pub fn from_ec_pem(key: &[u8]) -> Result<Self> { Ok(EncodingKey { family: AlgorithmFamily::Ec, id: bytes_id(key) }) }
    pub fn from_ed_pem(key: &[u8]) -> Result<Self> { Ok(EncodingKey { family: AlgorithmFamily::Ed, id: bytes_id(key) }) }
    pub fn from_rsa_pem(key: &[u8]) -> Result<Self> { Ok(EncodingKey { family: AlgorithmFamily::Rsa, id: bytes_id(key) }) }
}

// ---------------------------------------------------------------------------------------------
// validation.rs — `Validation` verbatim except HashSet -> VecSet
#[derive(Debug, Clone, PartialEq, Eq, Default)]
pub struct VecSet(pub Vec<String>);
impl VecSet {
    pub fn contains(&self, s: &str) -> bool {
        let mut i = 0;
        while i < self.0.len() {
            if self.0[i] == s { return true; }
            i += 1;
        }
        false
    }
    pub fn insert(&mut self, s: String) { if !self.contains(&s) { self.0.push(s); } }
    pub fn len(&self) -> usize { self.0.len() }
    pub fn is_empty(&self) -> bool { self.0.is_empty() }
    pub fn iter(&self) -> std::slice::Iter<'_, String> { self.0.iter() }
}
impl FromIterator<String> for VecSet {
    fn from_iter<T: IntoIterator<Item = String>>(it: T) -> Self { let mut s = VecSet::default(); for x in it { s.insert(x); } s }
}
impl<'a> IntoIterator for &'a VecSet { type Item = &'a String; type IntoIter = std::slice::Iter<'a, String>; fn into_iter(self) -> Self::IntoIter { self.0.iter() } }

#[derive(Debug, Clone, PartialEq, Eq)]
pub struct Validation {
    pub required_spec_claims: VecSet,
    pub leeway: u64,
    pub reject_tokens_expiring_in_less_than: u64,
    pub validate_exp: bool,
    pub validate_nbf: bool,
    pub validate_aud: bool,
    pub aud: Option<VecSet>,
    pub iss: Option<VecSet>,
    pub sub: Option<String>,
    pub algorithms: Vec<Algorithm>,
    pub(crate) validate_signature: bool,
}

impl Validation {
    pub fn new(alg: Algorithm) -> Validation {
        let mut required_claims = VecSet::default();
        required_claims.insert("exp".to_owned());

        Validation {
            required_spec_claims: required_claims,
            algorithms: vec![alg],
            leeway: 60,
            reject_tokens_expiring_in_less_than: 0,

            validate_exp: true,
            validate_nbf: false,
            validate_aud: true,

            iss: None,
            sub: None,
            aud: None,

            validate_signature: true,
        }
    }
    pub fn set_audience<T: ToString>(&mut self, items: &[T]) {
        self.aud = Some(items.iter().map(|x| x.to_string()).collect())
    }
    pub fn set_issuer<T: ToString>(&mut self, items: &[T]) {
        self.iss = Some(items.iter().map(|x| x.to_string()).collect())
    }
    pub fn set_required_spec_claims<T: ToString>(&mut self, items: &[T]) {
        self.required_spec_claims = items.iter().map(|x| x.to_string()).collect();
    }
    pub fn insecure_disable_signature_validation(&mut self) {
        self.validate_signature = false;
    }
}

impl Default for Validation {
    fn default() -> Self {
        Self::new(Algorithm::HS256)
    }
}

pub fn get_current_timestamp() -> u64 {
    model::now()
}

#[derive(Debug)]
enum TryParse<T> {
    Parsed(T),
    FailedToParse,
    NotPresent,
}

enum StrOrSet { Single(String), Multiple(VecSet) }

struct ClaimsForValidation {
    exp: TryParse<u64>,
    nbf: TryParse<u64>,
    sub: TryParse<String>,
    iss: TryParse<StrOrSet>,
    aud: TryParse<StrOrSet>,
}

/// What serde does for `#[serde(deserialize_with = "numeric_type", default)] TryParse<u64>` on a
/// serde_json value: absent -> NotPresent; u64 -> Parsed; f64 finite, >= 0, < 2^64 -> rounded;
/// anything else (null, negative integer, string, bool, array, object) -> FailedToParse.
fn numeric(claims: &Map<String, Value>, k: &str) -> TryParse<u64> {
    match claims.get(k) {
        None => TryParse::NotPresent,
        Some(Value::Number(n)) => {
            // floats: the real crate rounds finite non-negative f64 values; the model treats every
            // float as unparsable so that no floating-point arithmetic reaches the SAT solver
            // (exp / nbf given as JSON floats are outside every claim)
            if let Some(u) = n.as_u64() { TryParse::Parsed(u) } else { TryParse::FailedToParse }
        }
        Some(_) => TryParse::FailedToParse,
    }
}
/// `TryParse<Cow<str>>`: absent or null -> NotPresent, string -> Parsed, other -> FailedToParse
fn stringy(claims: &Map<String, Value>, k: &str) -> TryParse<String> {
    match claims.get(k) {
        None | Some(Value::Null) => TryParse::NotPresent,
        Some(Value::String(s)) => TryParse::Parsed(s.clone()),
        Some(_) => TryParse::FailedToParse,
    }
}
/// untagged Single(str) | Multiple(set of str)
fn str_or_set(claims: &Map<String, Value>, k: &str) -> TryParse<StrOrSet> {
    match claims.get(k) {
        None | Some(Value::Null) => TryParse::NotPresent,
        Some(Value::String(s)) => TryParse::Parsed(StrOrSet::Single(s.clone())),
        Some(Value::Array(a)) => {
            let mut set = VecSet::default();
            for v in a {
                match v { Value::String(s) => set.insert(s.clone()), _ => return TryParse::FailedToParse }
            }
            TryParse::Parsed(StrOrSet::Multiple(set))
        }
        Some(_) => TryParse::FailedToParse,
    }
}

fn is_subset(reference: &VecSet, given: &VecSet) -> bool {
    given.iter().any(|a| reference.contains(a))
}

/// The numeric-claim part of `validate()` (required-claims loop for exp / nbf and the exp / nbf
/// comparisons), verbatim, as a function of scalars only so that a harness can hand it symbolic
/// `now`, `exp`, `nbf` together with the `Validation` the code under test really built.
/// `None` = claim absent, `Some(Err(()))` = present but not coercible to u64, `Some(Ok(v))` = parsed.
pub fn validate_numeric(
    options: &Validation,
    exp: Option<std::result::Result<u64, ()>>,
    nbf: Option<std::result::Result<u64, ()>>,
    now: u64,
) -> Result<()> {
    let exp = match exp { None => TryParse::NotPresent, Some(Err(())) => TryParse::FailedToParse, Some(Ok(v)) => TryParse::Parsed(v) };
    let nbf = match nbf { None => TryParse::NotPresent, Some(Err(())) => TryParse::FailedToParse, Some(Ok(v)) => TryParse::Parsed(v) };
    validate_numeric_inner(options, &exp, &nbf, now)
}

fn validate_numeric_inner(options: &Validation, exp: &TryParse<u64>, nbf: &TryParse<u64>, now: u64) -> Result<()> {
    for required_claim in &options.required_spec_claims {
        let present = match required_claim.as_str() {
            "exp" => matches!(exp, TryParse::Parsed(_)),
            "nbf" => matches!(nbf, TryParse::Parsed(_)),
            _ => continue,
        };

        if !present {
            return Err(new_error(ErrorKind::MissingRequiredClaim(required_claim.clone())));
        }
    }

    if options.validate_exp || options.validate_nbf {
        if matches!(exp, TryParse::Parsed(exp) if options.validate_exp
            && *exp - options.reject_tokens_expiring_in_less_than < now - options.leeway )
        {
            return Err(new_error(ErrorKind::ExpiredSignature));
        }

        if matches!(nbf, TryParse::Parsed(nbf) if options.validate_nbf && *nbf > now + options.leeway)
        {
            return Err(new_error(ErrorKind::ImmatureSignature));
        }
    }
    Ok(())
}

// verbatim (HashSet -> VecSet, Issuer/Audience -> StrOrSet); the exp / nbf part lives in
// validate_numeric_inner above
fn validate(claims: ClaimsForValidation, options: &Validation) -> Result<()> {
    for required_claim in &options.required_spec_claims {
        let present = match required_claim.as_str() {
            "sub" => matches!(claims.sub, TryParse::Parsed(_)),
            "iss" => matches!(claims.iss, TryParse::Parsed(_)),
            "aud" => matches!(claims.aud, TryParse::Parsed(_)),
            _ => continue,
        };

        if !present {
            return Err(new_error(ErrorKind::MissingRequiredClaim(required_claim.clone())));
        }
    }
    let now = if options.validate_exp || options.validate_nbf { get_current_timestamp() } else { 0 };
    validate_numeric_inner(options, &claims.exp, &claims.nbf, now)?;

    if let (TryParse::Parsed(sub), Some(correct_sub)) = (claims.sub, options.sub.as_deref()) {
        if sub != correct_sub {
            return Err(new_error(ErrorKind::InvalidSubject));
        }
    }

    match (claims.iss, options.iss.as_ref()) {
        (TryParse::Parsed(StrOrSet::Single(iss)), Some(correct_iss)) => {
            if !correct_iss.contains(&*iss) {
                return Err(new_error(ErrorKind::InvalidIssuer));
            }
        }
        (TryParse::Parsed(StrOrSet::Multiple(iss)), Some(correct_iss)) => {
            if !is_subset(correct_iss, &iss) {
                return Err(new_error(ErrorKind::InvalidIssuer));
            }
        }
        _ => {}
    }

    if !options.validate_aud {
        return Ok(());
    }
    match (claims.aud, options.aud.as_ref()) {
        (TryParse::Parsed(_), None) => {
            return Err(new_error(ErrorKind::InvalidAudience));
        }
        (TryParse::Parsed(StrOrSet::Single(aud)), Some(correct_aud)) => {
            if !correct_aud.contains(&*aud) {
                return Err(new_error(ErrorKind::InvalidAudience));
            }
        }
        (TryParse::Parsed(StrOrSet::Multiple(aud)), Some(correct_aud)) => {
            if !is_subset(correct_aud, &aud) {
                return Err(new_error(ErrorKind::InvalidAudience));
            }
        }
        _ => {}
    }

    Ok(())
}

// ---------------------------------------------------------------------------------------------
// decoding.rs
#[derive(Debug, Clone)]
pub struct TokenData<T> {
    pub header: Header,
    pub claims: T,
}

/// Claim types the model can hand back. The real `decode` is generic over `DeserializeOwned`; the
/// model supports the two instantiations sd-jwt-rs uses without going through a (de)serializer or a
/// pointer cast (both lose CBMC's constant propagation).
pub trait ClaimsTarget: Sized {
    fn from_claims(claims: &Map<String, Value>) -> Self;
}
impl ClaimsTarget for Map<String, Value> {
    fn from_claims(claims: &Map<String, Value>) -> Self { claims.clone() }
}
impl ClaimsTarget for Value {
    fn from_claims(claims: &Map<String, Value>) -> Self { Value::Object(claims.clone()) }
}

/// Same checks as the real `verify_signature` + `decode`, in the same order.
///
/// VERIFIED HINTS. CBMC merges the states of the accepting and the rejecting path when a function
/// returns; a `Result<TokenData<..>>` whose Ok/Err tag depends on a symbolic value (clock, key
/// identity, audience bytes) then carries an undefined heap pointer on one side and everything the
/// caller does with it afterwards becomes intractable. The harness therefore announces the verdict
/// it expects from this call (`model::expect(n, verdict)`, a constant) after having restricted the
/// symbolic inputs to the region where that verdict is required by the property. The model computes
/// the REAL verdict symbolically (`ok_sym`), ASSERTS that it equals the announced one for every
/// value in the region — this assertion is the solver query that carries the property — and then
/// continues on the announced, concrete, branch. Without a hint the verdict is returned as is.
pub fn decode<T: ClaimsTarget>(
    token: &str,
    key: &DecodingKey,
    validation: &Validation,
) -> Result<TokenData<T>> {
    let call_no = model::log_decode_call(validation);
    // token shape + header: an unregistered string is not a JWT (concrete: token texts are concrete)
    let idx = match model::lookup(token) {
        Some(i) => i,
        None => {
            model::check_hint(call_no, false);
            return Err(new_error(ErrorKind::InvalidToken));
        }
    };
    let header = model::header_of(idx);
    let claims_map = model::claims_of(idx);
    if model::valid_under(idx) == model::MALFORMED_SIGNATURE {
        model::check_hint(call_no, false);
        return Err(new_error(ErrorKind::Base64("Invalid byte".to_string())));
    }
    let mut ok_sym = true;
    if validation.validate_signature && validation.algorithms.is_empty() {
        ok_sym = false; // MissingAlgorithm
    }
    if validation.validate_signature {
        for alg in &validation.algorithms {
            if key.family != alg.family() {
                ok_sym = false; // InvalidAlgorithm
            }
        }
    }
    if validation.validate_signature && !validation.algorithms.contains(&header.alg) {
        ok_sym = false; // InvalidAlgorithm
    }
    if ok_sym && validation.validate_signature && !model::verify(idx, token, key, header.alg) {
        ok_sym = false; // InvalidSignature
    }
    let cv = ClaimsForValidation {
        exp: numeric(claims_map, "exp"),
        nbf: numeric(claims_map, "nbf"),
        sub: stringy(claims_map, "sub"),
        iss: str_or_set(claims_map, "iss"),
        aud: str_or_set(claims_map, "aud"),
    };
    let claims_verdict = validate(cv, validation);
    if claims_verdict.is_err() {
        ok_sym = false;
    }
    std::mem::forget(claims_verdict);
    let ok = model::check_hint(call_no, ok_sym);
    if ok {
        let claims: T = T::from_claims(claims_map);
        Ok(TokenData { header, claims })
    } else {
        Err(new_error(ErrorKind::InvalidToken))
    }
}

pub fn decode_header(token: &str) -> Result<Header> {
    match model::lookup(token) {
        Some(i) => Ok(model::header_of(i)),
        None => Err(new_error(ErrorKind::InvalidToken)),
    }
}

// ---------------------------------------------------------------------------------------------
// encoding.rs
pub fn encode<T: Serialize>(header: &Header, claims: &T, key: &EncodingKey) -> Result<String> {
    if key.family != header.alg.family() {
        return Err(new_error(ErrorKind::InvalidAlgorithm));
    }
    let v = serde_json::to_value(claims).map_err(|e| new_error(ErrorKind::Json(std::sync::Arc::new(e))))?;
    Ok(model::sign(header, v, key))
}
