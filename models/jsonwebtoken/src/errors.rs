//! errors.rs of jsonwebtoken 9.3.1 without the third-party payloads that need ring / base64.
use std::error::Error as StdError;
use std::fmt;
use std::result;
use std::sync::Arc;

pub(crate) fn new_error(kind: ErrorKind) -> Error {
    Error(Box::new(kind))
}

pub type Result<T> = result::Result<T, Error>;

#[derive(Clone, Debug)]
pub struct Error(Box<ErrorKind>);

impl Error {
    pub fn kind(&self) -> &ErrorKind {
        &self.0
    }
    pub fn into_kind(self) -> ErrorKind {
        *self.0
    }
}

#[non_exhaustive]
#[derive(Clone, Debug)]
pub enum ErrorKind {
    InvalidToken,
    InvalidSignature,
    InvalidEcdsaKey,
    InvalidRsaKey(String),
    RsaFailedSigning,
    InvalidAlgorithmName,
    InvalidKeyFormat,
    MissingRequiredClaim(String),
    ExpiredSignature,
    InvalidIssuer,
    InvalidAudience,
    InvalidSubject,
    ImmatureSignature,
    InvalidAlgorithm,
    MissingAlgorithm,
    /// model of ErrorKind::Base64(base64::DecodeError): raised for a token whose signature segment is
    /// not canonical base64url (the real crate decodes the signature before comparing it)
    Base64(String),
    Json(Arc<serde_json::Error>),
    Utf8(::std::string::FromUtf8Error),
}

impl StdError for Error {}

impl fmt::Display for Error {
    /// constant text: error messages are never part of a property, and formatting the variant
    /// (Debug derive, dyn Write) dominates symbolic execution of every error path
    fn fmt(&self, f: &mut fmt::Formatter) -> fmt::Result {
        f.write_str("jsonwebtoken error")
    }
}

impl From<ErrorKind> for Error {
    fn from(kind: ErrorKind) -> Error {
        new_error(kind)
    }
}
