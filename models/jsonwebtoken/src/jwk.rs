//! Model of jsonwebtoken::jwk::Jwk: an opaque JSON object that has a string `kty` member.
use serde::{Deserialize, Deserializer, Serialize, Serializer};
use serde_json::{Map, Value};

#[derive(Clone, Debug, PartialEq, Eq)]
pub struct Jwk {
    pub raw: Map<String, Value>,
}

impl Jwk {
    pub fn kty(&self) -> Option<&str> { self.raw.get("kty").and_then(Value::as_str) }
    pub fn from_value(v: Value) -> Option<Jwk> {
        match v {
            Value::Object(raw) => match raw.get("kty") {
                Some(Value::String(k)) if k == "EC" || k == "OKP" || k == "RSA" || k == "oct" => Some(Jwk { raw }),
                _ => None,
            },
            _ => None,
        }
    }
}

impl Serialize for Jwk {
    fn serialize<S: Serializer>(&self, s: S) -> Result<S::Ok, S::Error> { self.raw.serialize(s) }
}

impl<'de> Deserialize<'de> for Jwk {
    fn deserialize<D: Deserializer<'de>>(d: D) -> Result<Self, D::Error> {
        let v = Value::deserialize(d)?;
        Jwk::from_value(v).ok_or_else(|| serde::de::Error::custom("not a JWK"))
    }
}
