//! Model of jsonwebtoken::jwk::Jwk: an opaque JSON object that has a string `kty` member.
use serde::{Deserialize, Deserializer, Serialize, Serializer};
use serde_json::{Map, Value};

#[derive(Clone, Debug, PartialEq, Eq)]
pub struct Jwk {
    pub raw: Map<String, Value>,
}

impl Jwk {
    pub fn kty(&self) -> Option<&str> { self.raw.get("kty").and_then(Value::as_str) }
    pub fn from_value(v: Value) -> Option<Jwk> {
        match v {
            Value::Object(raw) => match raw.get("kty") {
                Some(Value::String(k)) if k == "EC" || k == "OKP" || k == "RSA" || k == "oct" => Some(Jwk { raw }),
                _ => None,
            },
            _ => None,
        }
    }
}

impl Serialize for Jwk {
    fn serialize<S: Serializer>(&self, s: S) -> Result<S::Ok, S::Error> { self.raw.serialize(s) }
}

impl<'de> Deserialize<'de> for Jwk {
    /// sd-jwt-rs only ever deserializes a Jwk with `serde_json::from_value`, i.e. D = serde_json::Value.
    /// Going through serde's visitor machinery would rebuild and drop the whole value recursively
    /// (intractable under CBMC for values whose variant it cannot resolve), so for that D the value
    /// is taken over as it is. Any other deserializer goes the generic way.
    fn deserialize<D: Deserializer<'de>>(d: D) -> Result<Self, D::Error> {
        if std::any::type_name::<D>() == std::any::type_name::<Value>() {
            // SAFETY: D is serde_json::Value (same type name, same crate instance); `d` is forgotten
            let v: Value = unsafe { std::ptr::read(&d as *const D as *const Value) };
            std::mem::forget(d);
            return Jwk::from_value(v).ok_or_else(|| serde::de::Error::custom("not a JWK"));
        }
        let v = Value::deserialize(d)?;
        Jwk::from_value(v).ok_or_else(|| serde::de::Error::custom("not a JWK"))
    }
}
