//! Harness-facing state of the jsonwebtoken model (single-threaded; Kani has no threads).
#![allow(static_mut_refs)]
use crate::{Algorithm, DecodingKey, EncodingKey, Header};
use serde_json::{Map, Value};
use std::mem::ManuallyDrop;

/// identity of "no key": a token registered with `valid_under == NO_KEY` verifies under nothing
pub const NO_KEY: u64 = u64::MAX;
/// `valid_under` of a token whose SIGNATURE SEGMENT is not even valid base64url: decode() fails with
/// ErrorKind::Base64 (as the real crate does, before any signature comparison)
pub const MALFORMED_SIGNATURE: u64 = u64::MAX - 1;

pub struct Token {
    pub text: String,
    pub header: Header,
    pub claims: Map<String, Value>,
    pub valid_under: u64,
}

pub struct VerifyCall {
    pub token: String,
    pub key_family: crate::AlgorithmFamily,
    pub key_id: u64,
    pub alg: Algorithm,
    pub verdict: bool,
}

pub struct SignCall {
    pub header: Header,
    pub claims: Value,
    pub key_id: u64,
    pub token: String,
}

pub static mut TOKENS: ManuallyDrop<Vec<Token>> = ManuallyDrop::new(Vec::new());
pub static mut VERIFY_CALLS: ManuallyDrop<Vec<VerifyCall>> = ManuallyDrop::new(Vec::new());
pub static mut SIGN_CALLS: ManuallyDrop<Vec<SignCall>> = ManuallyDrop::new(Vec::new());
pub static mut DECODE_CALLS: usize = 0;
pub static mut NOW: u64 = 2_000_000_000;
pub static mut NOW_READS: usize = 0;

pub fn set_now(t: u64) { unsafe { NOW = t; } }
pub fn now() -> u64 { unsafe { NOW_READS += 1; NOW } }
pub static mut VALIDATIONS: ManuallyDrop<Vec<crate::Validation>> = ManuallyDrop::new(Vec::new());
/// every `decode()` call records the `Validation` it was given
pub fn log_decode_call(v: &crate::Validation) -> usize { unsafe { DECODE_CALLS += 1; VALIDATIONS.push(v.clone()); DECODE_CALLS - 1 } }

/// verdict announced by the harness for the n-th decode() call (None = no hint)
pub static mut HINTS: [Option<bool>; 4] = [None; 4];
pub fn expect(call_no: usize, verdict: bool) { unsafe { HINTS[call_no] = Some(verdict); } }
/// With a hint: assert that the real (possibly symbolic) verdict equals it and return the hint (a
/// constant). Without: return the real verdict.
pub fn check_hint(call_no: usize, real: bool) -> bool {
    let h = unsafe { if call_no < 4 { HINTS[call_no] } else { None } };
    match h {
        Some(v) => {
            assert!(real == v, "HINT decode() verdict required by the property differs from the verdict the library's configuration produces");
            v
        }
        None => real,
    }
}
pub fn validations() -> &'static Vec<crate::Validation> { unsafe { &VALIDATIONS } }

/// Register a token: `text` encodes (`header`, `claims`) and its signature verifies under the key
/// whose identity is `valid_under` (and under no other key).
pub fn register(text: &str, header: Header, claims: Map<String, Value>, valid_under: u64) {
    unsafe { TOKENS.push(Token { text: text.to_string(), header, claims, valid_under }); }
}

pub fn lookup(text: &str) -> Option<usize> {
    unsafe {
        let mut i = 0;
        while i < TOKENS.len() {
            if TOKENS[i].text == text { return Some(i); }
            i += 1;
        }
        None
    }
}
pub fn valid_under(i: usize) -> u64 { unsafe { TOKENS[i].valid_under } }
pub fn header_of(i: usize) -> Header { unsafe { TOKENS[i].header.clone() } }
pub fn claims_of(i: usize) -> &'static Map<String, Value> { unsafe { &TOKENS[i].claims } }

/// the ideal primitive: true iff asked about the registered text with the one matching key
pub fn verify(i: usize, token: &str, key: &DecodingKey, alg: Algorithm) -> bool {
    unsafe {
        let verdict = key.id != NO_KEY && TOKENS[i].valid_under == key.id && key.family == alg.family();
        VERIFY_CALLS.push(VerifyCall { token: token.to_string(), key_family: key.family, key_id: key.id, alg, verdict });
        verdict
    }
}

/// the primitive without the family check (what `crypto::verify` does in the real crate)
pub fn verify_raw(i: usize, token: &str, key: &DecodingKey, alg: Algorithm) -> bool {
    unsafe {
        let verdict = key.id != NO_KEY && TOKENS[i].valid_under == key.id;
        VERIFY_CALLS.push(VerifyCall { token: token.to_string(), key_family: key.family, key_id: key.id, alg, verdict });
        verdict
    }
}

pub fn sign(header: &Header, claims: Value, key: &EncodingKey) -> String {
    unsafe {
        let n = SIGN_CALLS.len();
        let d = (b'0' + (n % 10) as u8) as char;
        let mut text = String::with_capacity(8);
        text.push('h'); text.push(d); text.push('.');
        text.push('p'); text.push(d); text.push('.');
        text.push('s'); text.push(d);
        let claims_map = match &claims { Value::Object(m) => m.clone(), _ => Map::new() };
        SIGN_CALLS.push(SignCall { header: header.clone(), claims, key_id: key.id, token: text.clone() });
        TOKENS.push(Token { text: text.clone(), header: header.clone(), claims: claims_map, valid_under: key.id });
        text
    }
}

pub fn verify_calls() -> &'static Vec<VerifyCall> { unsafe { &VERIFY_CALLS } }
pub fn sign_calls() -> &'static Vec<SignCall> { unsafe { &SIGN_CALLS } }
pub fn decode_calls() -> usize { unsafe { DECODE_CALLS } }
