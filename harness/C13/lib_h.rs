//! C13 — reserved names. Unit: SDJWTCommon::check_for_sd_claim (the guard issue_sd_jwt runs on the
//! user claims before anything is built) on small claim trees whose planted member name is a
//! symbolic 3-byte string over {'_','s','d','.','a'} — so `_sd`, `...` and every near miss occur.
use super::*;
include!("../common.rs");

/// name over the alphabet {_, s, d, ., a}
fn sym_name() -> String {
    let s = sym_str::<3>(b'.', b's');
    let b = s.as_bytes();
    let mut i = 0;
    while i < 3 {
        kani::assume(b[i] == b'_' || b[i] == b's' || b[i] == b'd' || b[i] == b'.' || b[i] == b'a');
        i += 1;
    }
    s
}

fn is_reserved(s: &str) -> bool { streq(s, "_sd") || streq(s, "...") }

fn obj1(k: String, v: JValue) -> JValue {
    let mut m = JMap::new();
    std::mem::forget(m.insert(k, v));
    JValue::Object(m)
}

fn arr1(v: JValue) -> JValue {
    let mut a = Vec::with_capacity(1);
    a.push(v);
    JValue::Array(a)
}

fn check(claims: JValue, reserved: bool) {
    let r = SDJWTCommon::check_for_sd_claim(&claims);
    let refused = r.is_err();
    std::mem::forget(r);
    std::mem::forget(claims);
    if reserved { assert!(refused, "C13.a1 claim set with a member named _sd or ... must be refused"); }
    if !reserved { assert!(!refused, "C13.a2 claim set without reserved names must not be refused"); }
    kani::cover!(refused, "refused");
    kani::cover!(!refused, "accepted");
    kani::cover!(true, "end");
}

/// {k: 1}
#[kani::proof]
#[kani::unwind(3)]
#[kani::stub(alloc::fmt::format, fmt_stub)]
fn c13_top_level() {
    let k = sym_name();
    let reserved = is_reserved(&k);
    check(obj1(k, jnum(1)), reserved);
}

/// {"x": {k: 1}}
#[kani::proof]
#[kani::unwind(3)]
#[kani::stub(alloc::fmt::format, fmt_stub)]
fn c13_nested_object() {
    let k = sym_name();
    let reserved = is_reserved(&k);
    check(obj1("x".to_string(), obj1(k, jnum(1))), reserved);
}

/// {"x": [{k: "v"}]}  — the array-element position where `...` would be mistaken for a placeholder
#[kani::proof]
#[kani::unwind(3)]
#[kani::stub(alloc::fmt::format, fmt_stub)]
fn c13_object_in_array() {
    let k = sym_name();
    let reserved = is_reserved(&k);
    check(obj1("x".to_string(), arr1(obj1(k, jstr("v")))), reserved);
}

/// {"a": 1, k: {"z": 1}}  — reserved name on a member whose value is an object, next to a sibling
#[kani::proof]
#[kani::unwind(3)]
#[kani::stub(alloc::fmt::format, fmt_stub)]
fn c13_sibling_and_object_value() {
    let k = sym_name();
    let reserved = is_reserved(&k);
    let mut m = JMap::new();
    put(&mut m, "q", jnum(1));
    std::mem::forget(m.insert(k, obj1("z".to_string(), jnum(1))));
    check(JValue::Object(m), reserved);
}

/// {"x": {"z": 1}, k: 1}  — reserved name AFTER a container-valued sibling
#[kani::proof]
#[kani::unwind(3)]
#[kani::stub(alloc::fmt::format, fmt_stub)]
fn c13_after_container_sibling() {
    let k = sym_name();
    let reserved = is_reserved(&k);
    let mut m = JMap::new();
    put(&mut m, "x", obj1("z".to_string(), jnum(1)));
    std::mem::forget(m.insert(k, jnum(1)));
    check(JValue::Object(m), reserved);
}

/// [[{k: 1}]] — an object reached through an array nested directly in an array
#[kani::proof]
#[kani::unwind(3)]
#[kani::stub(alloc::fmt::format, fmt_stub)]
fn c13_array_in_array() {
    let k = sym_name();
    let reserved = is_reserved(&k);
    check(arr1(arr1(obj1(k, jnum(1)))), reserved);
}
