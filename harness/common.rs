// Shared helpers, textually included (`include!`) into every harness module, so that they live in
// the same module as the harness (and therefore see the private items of the repo file the module
// is mounted under).
#[allow(unused_imports)]
use serde_json::{Map as JMap, Value as JValue};

#[allow(dead_code)]
fn fmt_stub(_a: std::fmt::Arguments<'_>) -> String { String::new() }
#[allow(dead_code)]
fn display_stub(_v: &JValue, _f: &mut std::fmt::Formatter<'_>) -> std::fmt::Result { Ok(()) }

/// String of exactly N symbolic bytes, each in lo..=hi (ASCII).
/// Built with from_utf8_unchecked over a fixed-size buffer: `String::push(char)` would make the
/// LENGTH symbolic (len_utf8 of a symbolic char) and with it every later heap shape.
#[allow(dead_code)]
fn sym_str<const N: usize>(lo: u8, hi: u8) -> String {
    let b: [u8; N] = kani::any();
    let mut i = 0;
    while i < N {
        kani::assume(b[i] >= lo && b[i] <= hi && b[i] < 0x80);
        i += 1;
    }
    let mut v: Vec<u8> = Vec::with_capacity(N);
    let mut j = 0;
    while j < N { v.push(b[j]); j += 1; }
    unsafe { String::from_utf8_unchecked(v) }
}

#[allow(dead_code)]
fn jstr(s: &str) -> JValue { JValue::String(s.to_string()) }
#[allow(dead_code)]
fn jnum(n: u64) -> JValue { JValue::Number(n.into()) }

/// insert without running the drop glue of the (None) result
#[allow(dead_code)]
fn put(m: &mut JMap<String, JValue>, k: &str, v: JValue) {
    std::mem::forget(m.insert(k.to_string(), v));
}

#[allow(dead_code)]
fn streq(a: &str, b: &str) -> bool {
    let (a, b) = (a.as_bytes(), b.as_bytes());
    if a.len() != b.len() { return false; }
    let mut i = 0;
    while i < a.len() {
        if a[i] != b[i] { return false; }
        i += 1;
    }
    true
}

/// Stand-in for core::str::validations::run_utf8_validation (whose word-at-a-time fast path branches
/// on buffer alignment): ASSERTS that the bytes are ASCII (so "the text is valid UTF-8" stays a
/// proof obligation, it is not assumed) and accepts.
#[allow(dead_code)]
fn utf8_ascii_stub(v: &[u8]) -> std::result::Result<(), core::str::Utf8Error> {
    let mut i = 0;
    while i < v.len() {
        assert!(v[i] < 128, "UTF8 text produced here must be ASCII");
        i += 1;
    }
    Ok(())
}

/// Stand-in for core::str::count::do_count_chars (word-at-a-time, alignment dependent; only used by
/// core for strings of >= 32 bytes): the plain definition "number of non-continuation bytes".
#[allow(dead_code)]
fn count_chars_stub(s: &str) -> usize {
    let b = s.as_bytes();
    let mut n = 0;
    let mut i = 0;
    while i < b.len() {
        if (b[i] as i8) >= -0x40 { n += 1; }
        i += 1;
    }
    n
}

// VERIF_SEED (environment, read at compile time of the scratch crate) only selects among a few
// equivalent CONCRETE choices a harness has to make (key identities, the name of an unrelated
// member, the opaque token text); everything symbolic stays universally quantified.
#[allow(dead_code)]
const fn parse_u64(s: &str) -> u64 {
    let b = s.as_bytes();
    let mut i = 0;
    let mut n = 0u64;
    while i < b.len() {
        if b[i] >= b'0' && b[i] <= b'9' { n = n.wrapping_mul(10).wrapping_add((b[i] - b'0') as u64); }
        i += 1;
    }
    n
}
#[allow(dead_code)]
const VERIF_SEED: u64 = match option_env!("VERIF_SEED") { Some(s) => parse_u64(s), None => 0 };
