//! C14 — decoy digests: SDJWTIssuer::create_decoy_claim_entry hashes the base64url text of 16 bytes
//! it draws for this decoy alone.
use super::*;
include!("../common.rs");
use rand::model as rm;
use crate::verif_oracle as ho;

const TABLE: &[u8; 64] = b"ABCDEFGHIJKLMNOPQRSTUVWXYZabcdefghijklmnopqrstuvwxyz0123456789-_";
fn ref_char(bytes: &[u8], pos: usize) -> u8 {
    let g = pos / 4;
    let b0 = bytes[3 * g] as u32;
    let b1 = if 3 * g + 1 < 16 { bytes[3 * g + 1] as u32 } else { 0 };
    let b2 = if 3 * g + 2 < 16 { bytes[3 * g + 2] as u32 } else { 0 };
    let n = (b0 << 16) | (b1 << 8) | b2;
    let idx = match pos % 4 { 0 => n >> 18, 1 => (n >> 12) & 63, 2 => (n >> 6) & 63, _ => n & 63 };
    TABLE[idx as usize]
}

#[kani::proof]
#[kani::unwind(24)]
#[kani::stub(core::str::validations::run_utf8_validation, utf8_ascii_stub)]
fn c14_decoy_hashes_a_salt_of_its_own() {
    ho::hash_on(2, b'd');
    let mut iss = SDJWTIssuer {
        sign_alg: "ES256".to_string(),
        add_decoy_claims: true,
        extra_header_parameters: None,
        issuer_key: EncodingKey::model(jsonwebtoken::AlgorithmFamily::Ec, 7),
        holder_key: None,
        inner: Default::default(),
        all_disclosures: Vec::new(),
        sd_jwt_payload: Default::default(),
        signed_sd_jwt: String::new(),
        serialized_sd_jwt: String::new(),
    };
    let d = iss.create_decoy_claim_entry();
    #[allow(static_mut_refs)]
    unsafe {
        assert!(rm::FILL_CALLS == 1 && rm::DRAWS.len() == 16 && rm::OTHER_DRAWS == 0, "C14.d1 a decoy draws exactly 16 fresh random bytes");
        assert!(ho::HASH_INPUTS.len() == 1 && ho::HASH_INPUTS[0].len() == 22, "C14.d2 exactly one hash, over the 22-character salt text");
        let hi = &ho::HASH_INPUTS[0];
        let mut i = 0;
        while i < 22 {
            assert!(hi[i] == ref_char(&rm::DRAWS[0..16], i), "C14.d3 the decoy digest is the hash of the base64url text of the bytes drawn for it");
            i += 1;
        }
        assert!(streq(&d, &ho::HASH_DIGESTS[0]), "C14.d4 the entry is that digest");
    }
    kani::cover!(true, "end");
    std::mem::forget(d); std::mem::forget(iss);
}
