//! C14 — salts. Unit: utils::generate_salt with the rand model (every drawn byte is an arbitrary
//! value, draws are logged): the salt is the base64url text of exactly the 16 bytes drawn in THIS
//! call — hence 128 arbitrary bits, injective, no caching / clock / counter.
use super::*;
include!("../common.rs");
use rand::model as rm;

const TABLE: &[u8; 64] = b"ABCDEFGHIJKLMNOPQRSTUVWXYZabcdefghijklmnopqrstuvwxyz0123456789-_";

/// reference base64url (no padding) of 16 bytes: 5 full groups of 3 bytes + 1 byte
fn ref_char(bytes: &[u8], pos: usize) -> u8 {
    let g = pos / 4;
    let b0 = bytes[3 * g] as u32;
    let b1 = if 3 * g + 1 < 16 { bytes[3 * g + 1] as u32 } else { 0 };
    let b2 = if 3 * g + 2 < 16 { bytes[3 * g + 2] as u32 } else { 0 };
    let n = (b0 << 16) | (b1 << 8) | b2;
    let idx = match pos % 4 { 0 => n >> 18, 1 => (n >> 12) & 63, 2 => (n >> 6) & 63, _ => n & 63 };
    TABLE[idx as usize]
}

#[kani::proof]
#[kani::unwind(24)]
#[kani::stub(core::str::validations::run_utf8_validation, utf8_ascii_stub)]
fn c14_salt_is_encoding_of_16_fresh_bytes() {
    let s1 = generate_salt();
    #[allow(static_mut_refs)]
    unsafe {
        assert!(rm::FILL_CALLS == 1 && rm::DRAWS.len() == 16 && rm::OTHER_DRAWS == 0, "C14.a1 a salt is made of exactly one draw of 16 random bytes");
        assert!(s1.len() == 22, "C14.a2 base64url of 16 bytes has 22 characters");
        let sb = s1.as_bytes();
        let mut i = 0;
        while i < 22 {
            assert!(sb[i] == ref_char(&rm::DRAWS[0..16], i), "C14.a3 the salt is the base64url text of the bytes drawn in this call");
            i += 1;
        }
    }
    kani::cover!(s1.as_bytes()[0] == b'_', "salt starts with _");
    kani::cover!(s1.as_bytes()[21] == b'A', "last char A");
    kani::cover!(true, "end");
    std::mem::forget(s1);
}

#[kani::proof]
#[kani::unwind(24)]
#[kani::stub(core::str::validations::run_utf8_validation, utf8_ascii_stub)]
fn c14_two_salts_use_disjoint_draws() {
    let s1 = generate_salt();
    let s2 = generate_salt();
    #[allow(static_mut_refs)]
    unsafe {
        assert!(rm::FILL_CALLS == 2 && rm::DRAWS.len() == 32 && rm::OTHER_DRAWS == 0, "C14.b1 every salt draws its own 16 bytes");
        let sb = s2.as_bytes();
        assert!(s2.len() == 22, "C14.b2 length");
        let mut i = 0;
        while i < 22 {
            assert!(sb[i] == ref_char(&rm::DRAWS[16..32], i), "C14.b3 the second salt depends only on the second draw");
            i += 1;
        }
    }
    kani::cover!(s1.as_bytes()[0] != s2.as_bytes()[0], "salts differ");
    kani::cover!(true, "end");
    std::mem::forget(s1);
    std::mem::forget(s2);
}
