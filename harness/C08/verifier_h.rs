//! C03 / C08 (one object level) — Unit: SDJWTVerifier::unpack_disclosed_claims_in_object on a flat
//! signed payload {"_sd": [..], "x": v} and a directly built digest -> decoded-disclosure map.
//! Equality patterns among digests are concrete per harness (CBMC cannot carry a symbolic map
//! lookup, DESIGN.md §2b.2); names, values and the visible claim are symbolic.
use super::*;
include!("../common.rs");

fn mk_v() -> SDJWTVerifier {
    SDJWTVerifier {
        sd_jwt_payload: JMap::new(),
        _holder_public_key_payload: None,
        duplicate_hash_check: Vec::new(),
        cb_get_issuer_key: Box::new(|_, _| DecodingKey::model(jsonwebtoken::AlgorithmFamily::Ec, 7)),
        sd_jwt_engine: SDJWTCommon::default(),
        verified_claims: JValue::Null,
    }
}

fn arr(items: Vec<JValue>) -> JValue { JValue::Array(items) }

fn v2(a: JValue, b: JValue) -> Vec<JValue> { let mut v = Vec::with_capacity(2); v.push(a); v.push(b); v }
fn v3(a: JValue, b: JValue, c: JValue) -> Vec<JValue> { let mut v = Vec::with_capacity(3); v.push(a); v.push(b); v.push(c); v }
fn v1(a: JValue) -> Vec<JValue> { let mut v = Vec::with_capacity(1); v.push(a); v }

fn payload(digests: Vec<JValue>, x: u64) -> JMap<String, JValue> {
    let mut m = JMap::new();
    put(&mut m, "_sd", arr(digests));
    put(&mut m, "x", jnum(x));
    m
}

fn disclose(v: &mut SDJWTVerifier, digest: &str, d: JValue) {
    std::mem::forget(v.sd_jwt_engine.hash_to_decoded_disclosure.insert(digest.to_string(), d));
}

/// genuine disclosure for d1, nothing for d2 (decoy / undisclosed), one unreferenced disclosure:
/// output = {x, n: value}; the unreferenced disclosure contributes nothing
#[kani::proof]
#[kani::unwind(3)]
#[kani::stub(alloc::fmt::format, fmt_stub)]
#[kani::stub(<serde_json::Value as std::fmt::Display>::fmt, display_stub)]
fn c08_one_disclosed_one_decoy_one_unreferenced() {
    let x: u64 = kani::any();
    let val: u64 = kani::any();
    let mut v = mk_v();
    disclose(&mut v, "d1", arr(v3(jstr("s"), jstr("n"), jnum(val))));
    disclose(&mut v, "zz", arr(v3(jstr("s"), jstr("evil"), jnum(666))));
    let p = payload(v2(jstr("d1"), jstr("d2")), x);
    let r = v.unpack_disclosed_claims_in_object(&p);
    match &r {
        Ok(JValue::Object(o)) => {
            assert!(o.len() == 2, "C08.a1 exactly the visible claim and the one disclosed claim");
            assert!(o.get("x") == Some(&jnum(x)), "C08.a2 visible claim unchanged");
            assert!(o.get("n") == Some(&jnum(val)), "C08.a3 disclosed claim has the disclosure's name and value");
            assert!(!o.contains_key("_sd") && !o.contains_key("evil"), "C08.a4 no digest list and nothing from an unreferenced disclosure in the output");
        }
        _ => assert!(false, "C08.a5 well-formed input must be accepted"),
    }
    kani::cover!(true, "end");
    std::mem::forget(r); std::mem::forget(v); std::mem::forget(p);
}

/// the same digest twice in one _sd list: MUST be rejected
#[kani::proof]
#[kani::unwind(3)]
#[kani::stub(alloc::fmt::format, fmt_stub)]
#[kani::stub(<serde_json::Value as std::fmt::Display>::fmt, display_stub)]
fn c08_duplicate_digest_rejected() {
    let val: u64 = kani::any();
    let mut v = mk_v();
    disclose(&mut v, "d1", arr(v3(jstr("s"), jstr("n"), jnum(val))));
    let p = payload(v2(jstr("d1"), jstr("d1")), 7);
    let r = v.unpack_disclosed_claims_in_object(&p);
    assert!(r.is_err(), "C08.b1 a digest occurring twice must be rejected");
    kani::cover!(true, "end");
    std::mem::forget(r); std::mem::forget(v); std::mem::forget(p);
}

/// disclosed name collides with a visible claim: MUST be rejected
#[kani::proof]
#[kani::unwind(3)]
#[kani::stub(alloc::fmt::format, fmt_stub)]
#[kani::stub(<serde_json::Value as std::fmt::Display>::fmt, display_stub)]
fn c08_name_collision_rejected() {
    let val: u64 = kani::any();
    let mut v = mk_v();
    disclose(&mut v, "d1", arr(v3(jstr("s"), jstr("x"), jnum(val))));
    let p = payload(v1(jstr("d1")), 7);
    let r = v.unpack_disclosed_claims_in_object(&p);
    assert!(r.is_err(), "C08.c1 a disclosed name already present in its object must be rejected");
    kani::cover!(true, "end");
    std::mem::forget(r); std::mem::forget(v); std::mem::forget(p);
}

/// referenced object-member disclosure with only two elements (array-element shape): error, no panic
#[kani::proof]
#[kani::unwind(3)]
#[kani::stub(alloc::fmt::format, fmt_stub)]
#[kani::stub(<serde_json::Value as std::fmt::Display>::fmt, display_stub)]
fn c08_two_element_disclosure_in_sd_rejected() {
    let mut v = mk_v();
    disclose(&mut v, "d1", arr(v2(jstr("s"), jstr("n"))));
    let p = payload(v1(jstr("d1")), 7);
    let r = v.unpack_disclosed_claims_in_object(&p);
    assert!(r.is_err(), "C08.d1 an object-member disclosure that is not a 3-element array must be rejected (not panic)");
    kani::cover!(true, "end");
    std::mem::forget(r); std::mem::forget(v); std::mem::forget(p);
}
