//! C07 — no panic / correct output of the Unicode escaper for EVERY non-ASCII scalar value.
//! Unit: disclosure::escape_unicode_chars (called by SDJWTDisclosure::new on every disclosure value
//! that is not pure ASCII). One harness per UTF-8 length class so that string lengths are concrete.
use super::*;
include!("../common.rs");

fn hex(d: u32) -> u8 { if d < 10 { b'0' + d as u8 } else { b'a' + (d - 10) as u8 } }

/// out[at..at+6] == "\\uXXXX" for the 16-bit unit `u` (lower-case hex, as the rest of the escaper emits)
fn is_escape(out: &[u8], at: usize, u: u32) -> bool {
    out[at] == b'\\' && out[at + 1] == b'u'
        && out[at + 2] == hex((u >> 12) & 15) && out[at + 3] == hex((u >> 8) & 15)
        && out[at + 4] == hex((u >> 4) & 15) && out[at + 5] == hex(u & 15)
}

fn string_of(bytes: &[u8]) -> String {
    let mut v: Vec<u8> = Vec::with_capacity(bytes.len());
    let mut i = 0;
    while i < bytes.len() { v.push(bytes[i]); i += 1; }
    unsafe { String::from_utf8_unchecked(v) }
}

#[kani::proof]
#[kani::stub(core::str::count::do_count_chars, count_chars_stub)]
#[kani::unwind(12)]
fn c07_escape_two_byte_chars() {
    let cp: u32 = kani::any();
    kani::assume(cp >= 0x80 && cp <= 0x7FF);
    let s = string_of(&[0xC0 | (cp >> 6) as u8, 0x80 | (cp & 0x3F) as u8]);
    let out = escape_unicode_chars(&s);
    assert!(out.len() == 6 && is_escape(out.as_bytes(), 0, cp), "C07.u1 a 2-byte character must become \\uXXXX");
    kani::cover!(cp == 0xde, "U+00DE");
    kani::cover!(true, "end");
    std::mem::forget(out); std::mem::forget(s);
}

#[kani::proof]
#[kani::stub(core::str::count::do_count_chars, count_chars_stub)]
#[kani::unwind(12)]
fn c07_escape_three_byte_chars() {
    let cp: u32 = kani::any();
    kani::assume(cp >= 0x800 && cp <= 0xFFFF && !(cp >= 0xD800 && cp <= 0xDFFF));
    let s = string_of(&[0xE0 | (cp >> 12) as u8, 0x80 | ((cp >> 6) & 0x3F) as u8, 0x80 | (cp & 0x3F) as u8]);
    let out = escape_unicode_chars(&s);
    assert!(out.len() == 6 && is_escape(out.as_bytes(), 0, cp), "C07.u2 a 3-byte character must become \\uXXXX");
    kani::cover!(cp == 0x980, "U+0980");
    kani::cover!(cp == 0x23f0, "U+23F0");
    kani::cover!(true, "end");
    std::mem::forget(out); std::mem::forget(s);
}

/// non-BMP: JSON escapes these as a UTF-16 surrogate pair
#[kani::proof]
#[kani::stub(core::str::count::do_count_chars, count_chars_stub)]
#[kani::unwind(14)]
fn c07_escape_four_byte_chars() {
    let cp: u32 = kani::any();
    kani::assume(cp >= 0x10000 && cp <= 0x10FFFF);
    let s = string_of(&[0xF0 | (cp >> 18) as u8, 0x80 | ((cp >> 12) & 0x3F) as u8, 0x80 | ((cp >> 6) & 0x3F) as u8, 0x80 | (cp & 0x3F) as u8]);
    let out = escape_unicode_chars(&s);
    let v = cp - 0x10000;
    let hi = 0xD800 + (v >> 10);
    let lo = 0xDC00 + (v & 0x3FF);
    assert!(out.len() == 12 && is_escape(out.as_bytes(), 0, hi) && is_escape(out.as_bytes(), 6, lo),
            "C07.u3 a character above U+FFFF must become a \\uD8xx\\uDCxx surrogate pair");
    kani::cover!(cp == 0x1F600, "U+1F600");
    kani::cover!(true, "end");
    std::mem::forget(out); std::mem::forget(s);
}

/// ASCII neighbours are left alone: "a" + 2-byte char + "b"
#[kani::proof]
#[kani::stub(core::str::count::do_count_chars, count_chars_stub)]
#[kani::unwind(12)]
fn c07_escape_keeps_ascii_context() {
    let cp: u32 = kani::any();
    kani::assume(cp >= 0x80 && cp <= 0x7FF);
    let a: u8 = kani::any();
    kani::assume(a < 0x80);
    let s = string_of(&[a, 0xC0 | (cp >> 6) as u8, 0x80 | (cp & 0x3F) as u8, b'"']);
    let out = escape_unicode_chars(&s);
    let ob = out.as_bytes();
    assert!(out.len() == 8 && ob[0] == a && is_escape(ob, 1, cp) && ob[7] == b'"', "C07.u4 ASCII characters around an escaped one are copied unchanged");
    kani::cover!(true, "end");
    std::mem::forget(out); std::mem::forget(s);
}
