//! C07 (verifier, signature step) — SDJWTVerifier::verify_sd_jwt returns Err, never panics, when the
//! unverified payload lacks `iss` or carries one that is not a string.
use super::*;
include!("../common.rs");
use jsonwebtoken::model as jm;

fn mk_verifier(payload: JMap<String, JValue>) -> SDJWTVerifier {
    SDJWTVerifier {
        sd_jwt_payload: JMap::new(),
        _holder_public_key_payload: None,
        duplicate_hash_check: Vec::new(),
        cb_get_issuer_key: Box::new(|_iss, _h| DecodingKey::model(jsonwebtoken::AlgorithmFamily::Ec, 7)),
        sd_jwt_engine: SDJWTCommon {
            unverified_sd_jwt: Some("h.p.s".to_string()),
            unverified_input_sd_jwt_payload: Some(payload),
            serialization_format: SDJWTSerializationFormat::Compact,
            ..Default::default()
        },
        verified_claims: JValue::Null,
    }
}

fn signed_claims() -> JMap<String, JValue> {
    let mut m = JMap::new();
    put(&mut m, "exp", jnum(5000));
    m
}

/// payload without iss (any other member name of 3 bytes): Err, no panic
#[kani::proof]
#[kani::unwind(4)]
#[kani::stub(alloc::fmt::format, fmt_stub)]
fn c07_verify_without_iss_is_an_error() {
    // concrete member name: a symbolic one makes CBMC follow the "found" branch with an
    // unconstrained value and does not finish; the value of the member is symbolic instead
    let k = (match VERIF_SEED % 3 { 0 => "sub", 1 => "aud", _ => "jti" }).to_string();
    jm::register("h.p.s", Header::new(Algorithm::ES256), signed_claims(), 7);
    jm::set_now(1000);
    // (never reached on a feasible path; keeps CBMC's exploration of the infeasible "iss found" branch cheap)
    jm::expect(0, true);
    let mut payload = JMap::new();
    std::mem::forget(payload.insert(k, JValue::String(sym_str::<2>(b'a', b'z'))));
    let mut v = mk_verifier(payload);
    let r = v.verify_sd_jwt(Some("ES256".to_string()));
    assert!(r.is_err(), "C07.v1 a token without iss must be refused with an error");
    kani::cover!(true, "end");
    std::mem::forget(r); std::mem::forget(v);
}

/// iss present but a number / null: Err, no panic
#[kani::proof]
#[kani::unwind(4)]
#[kani::stub(alloc::fmt::format, fmt_stub)]
fn c07_verify_with_non_string_iss_is_an_error() {
    let n: u64 = 5;
    jm::register("h.p.s", Header::new(Algorithm::ES256), signed_claims(), 7);
    jm::set_now(1000);
    // (never reached on a feasible path; keeps CBMC's exploration of the infeasible "iss found" branch cheap)
    jm::expect(0, true);
    let mut payload = JMap::new();
    put(&mut payload, "iss", jnum(n));
    let mut v = mk_verifier(payload);
    let r = v.verify_sd_jwt(Some("ES256".to_string()));
    assert!(r.is_err(), "C07.v2 a token whose iss is not a string must be refused with an error");
    kani::cover!(true, "end");
    std::mem::forget(r); std::mem::forget(v);
}

/// empty payload
#[kani::proof]
#[kani::unwind(4)]
#[kani::stub(alloc::fmt::format, fmt_stub)]
fn c07_verify_with_empty_payload_is_an_error() {
    jm::register("h.p.s", Header::new(Algorithm::ES256), signed_claims(), 7);
    jm::set_now(1000);
    // (never reached on a feasible path; keeps CBMC's exploration of the infeasible "iss found" branch cheap)
    jm::expect(0, true);
    let mut v = mk_verifier(JMap::new());
    let r = v.verify_sd_jwt(Some("ES256".to_string()));
    assert!(r.is_err(), "C07.v3 a token with an empty payload must be refused with an error");
    kani::cover!(true, "end");
    std::mem::forget(r); std::mem::forget(v);
}

/// iss is the empty string: any result but no panic (the resolver decides what to do with it)
#[kani::proof]
#[kani::unwind(4)]
#[kani::stub(alloc::fmt::format, fmt_stub)]
fn c07_verify_with_empty_iss_does_not_panic() {
    let mut c = signed_claims();
    put(&mut c, "iss", jstr(""));
    jm::register("h.p.s", Header::new(Algorithm::ES256), c, 7);
    jm::set_now(1000);
    jm::expect(0, true);
    let mut payload = JMap::new();
    put(&mut payload, "iss", jstr(""));
    let mut v = mk_verifier(payload);
    let r = v.verify_sd_jwt(Some("ES256".to_string()));
    assert!(r.is_ok(), "C07.v4 an empty iss is a string: the token verifies under the resolver's key");
    kani::cover!(true, "end");
    std::mem::forget(r); std::mem::forget(v);
}

/// validly signed token whose cnf is not an object (a string of any content): no panic, and no
/// holder key is taken over
#[kani::proof]
#[kani::unwind(4)]
#[kani::stub(alloc::fmt::format, fmt_stub)]
fn c07_verify_with_non_object_cnf_does_not_panic() {
    let mut c = signed_claims();
    put(&mut c, "iss", jstr("i"));
    put(&mut c, "cnf", JValue::String(sym_str::<2>(b'a', b'z')));
    jm::register("h.p.s", Header::new(Algorithm::ES256), c, 7);
    jm::set_now(1000);
    jm::expect(0, true);
    let mut payload = JMap::new();
    put(&mut payload, "iss", jstr("i"));
    let mut v = mk_verifier(payload);
    let r = v.verify_sd_jwt(Some("ES256".to_string()));
    assert!(r.is_ok(), "C07.v5 a cnf of the wrong JSON type must not make signature verification fail or panic");
    assert!(v._holder_public_key_payload.is_none(), "C07.v6 a cnf that is not an object confirms no holder key");
    kani::cover!(true, "end");
    std::mem::forget(r); std::mem::forget(v);
}

/// engine state incomplete (no token text / no parsed payload): error, no panic
#[kani::proof]
#[kani::unwind(4)]
#[kani::stub(alloc::fmt::format, fmt_stub)]
fn c07_verify_without_parsed_state_is_an_error() {
    let which: bool = kani::any();
    let mut payload = JMap::new();
    put(&mut payload, "iss", jstr("i"));
    let mut v = mk_verifier(payload);
    if which { v.sd_jwt_engine.unverified_sd_jwt = None; } else { v.sd_jwt_engine.unverified_input_sd_jwt_payload = None; }
    jm::register("h.p.s", Header::new(Algorithm::ES256), signed_claims(), 7);
    jm::set_now(1000);
    jm::expect(0, true);
    let r = v.verify_sd_jwt(Some("ES256".to_string()));
    assert!(r.is_err(), "C07.v7 verification without a parsed token must be an error");
    kani::cover!(which, "no token text");
    kani::cover!(!which, "no parsed payload");
    kani::cover!(true, "end");
    std::mem::forget(r); std::mem::forget(v);
}
