//! C04 — key binding. Unit: SDJWTVerifier::verify_key_binding_jwt on a directly built verifier
//! (the state verify_sd_jwt + parse leave behind), jsonwebtoken model (ideal signature, real aud
//! validation), ideal-hash oracle for sd_hash.
use super::*;
include!("../common.rs");
use jsonwebtoken::model as jm;
use crate::verif_oracle as ho;

const KB: &str = "k";
const JWT: &str = "j";

fn cnf(kty: &str, x: &str) -> JMap<String, JValue> {
    let mut jwk = JMap::new();
    put(&mut jwk, "kty", jstr(kty));
    put(&mut jwk, "x", jstr(x));
    let mut c = JMap::new();
    put(&mut c, "jwk", JValue::Object(jwk));
    c
}

fn mk_verifier(format: SDJWTSerializationFormat, cnf: Option<JMap<String, JValue>>, kb: Option<&str>) -> SDJWTVerifier {
    let mut disclosures = Vec::with_capacity(2);
    disclosures.push("d".to_string());
    disclosures.push("e".to_string());
    SDJWTVerifier {
        sd_jwt_payload: JMap::new(),
        _holder_public_key_payload: cnf,
        duplicate_hash_check: Vec::new(),
        cb_get_issuer_key: Box::new(|_iss, _h| DecodingKey::model(jsonwebtoken::AlgorithmFamily::Ec, 7)),
        sd_jwt_engine: SDJWTCommon {
            unverified_sd_jwt: Some(JWT.to_string()),
            unverified_input_key_binding_jwt: kb.map(|s| s.to_string()),
            input_disclosures: disclosures,
            serialization_format: format,
            ..Default::default()
        },
        verified_claims: JValue::Null,
    }
}

fn kb_header(typ: Option<String>, alg: Algorithm) -> Header {
    let mut h = Header::new(alg);
    h.typ = typ;
    h
}

fn kb_claims(nonce: Option<String>, aud: Option<String>, sd_hash: Option<String>) -> JMap<String, JValue> {
    let mut c = JMap::new();
    if let Some(n) = nonce { put(&mut c, "nonce", JValue::String(n)); }
    if let Some(a) = aud { put(&mut c, "aud", JValue::String(a)); }
    put(&mut c, "iat", jnum(1000));
    if let Some(s) = sd_hash { put(&mut c, "sd_hash", JValue::String(s)); }
    c
}

fn sym_format() -> SDJWTSerializationFormat {
    if kani::any() { SDJWTSerializationFormat::Compact } else { SDJWTSerializationFormat::JSON }
}

/// digest the ideal hash assigns to the presented `jwt~d1~d2~`
fn presented_digest() -> String {
    ho::hash_on(2, b'c');
    crate::utils::base64_hash(b"j~d~e~")
}

fn holder_key_id() -> u64 { jsonwebtoken::bytes_id(b"k") }

fn finish(r: Result<()>, v: SDJWTVerifier) -> bool {
    let ok = r.is_ok();
    std::mem::forget(r);
    std::mem::forget(v);
    ok
}

/// nonce, sd_hash and the format flag symbolic; everything else honest.
/// accepted <=> nonce == expected nonce AND sd_hash == digest of the presented jwt~d1~d2~ — in BOTH formats.
#[kani::proof]
#[kani::unwind(4)]
#[kani::stub(alloc::fmt::format, fmt_stub)]
fn c04_nonce_and_sd_hash() {
    let digest = presented_digest();
    let nonce = sym_str::<2>(b'a', b'c');
    let expected_nonce = sym_str::<2>(b'a', b'c');
    let claimed = sym_str::<2>(b'a', b'c');
    let nonce_ok = streq(&nonce, &expected_nonce);
    let hash_ok = streq(&claimed, &digest);
    let format = sym_format();
    let is_compact = format == SDJWTSerializationFormat::Compact;
    jm::register(KB, kb_header(Some("kb+jwt".to_string()), Algorithm::ES256),
                 kb_claims(Some(nonce), Some("aud".to_string()), Some(claimed)), holder_key_id());
    jm::expect(0, true);
    let mut v = mk_verifier(format, Some(cnf("EC", "k")), Some(KB));
    let r = v.verify_key_binding_jwt("aud".to_string(), expected_nonce, Some("ES256"));
    let ok = finish(r, v);
    if ok { assert!(nonce_ok, "C04.a1 key binding accepted although the nonce differs from the expected one"); }
    if ok { assert!(hash_ok, "C04.a2 key binding accepted although sd_hash is not the digest of the presented SD-JWT and disclosures"); }
    if nonce_ok && hash_ok { assert!(ok, "C04.a3 honest key-bound presentation rejected"); }
    let calls = jm::verify_calls();
    assert!(calls.len() == 1 && calls[0].key_id == holder_key_id() && calls[0].verdict, "C04.a4 KB-JWT signature must be checked once, under the key from the verified payload's cnf.jwk");
    kani::cover!(ok && is_compact, "accepted, compact");
    kani::cover!(ok && !is_compact, "accepted, json");
    kani::cover!(!ok && !nonce_ok, "rejected: nonce");
    kani::cover!(!ok && nonce_ok && !hash_ok && !is_compact, "rejected: sd_hash, json");
    kani::cover!(true, "end");
}

/// sd_hash absent
#[kani::proof]
#[kani::unwind(4)]
#[kani::stub(alloc::fmt::format, fmt_stub)]
fn c04_sd_hash_absent() {
    let _digest = presented_digest();
    let format = sym_format();
    jm::register(KB, kb_header(Some("kb+jwt".to_string()), Algorithm::ES256),
                 kb_claims(Some("nn".to_string()), Some("aud".to_string()), None), holder_key_id());
    jm::expect(0, true);
    let mut v = mk_verifier(format, Some(cnf("EC", "k")), Some(KB));
    let r = v.verify_key_binding_jwt("aud".to_string(), "nn".to_string(), Some("ES256"));
    let ok = finish(r, v);
    assert!(!ok, "C04.b1 key binding accepted without sd_hash");
    kani::cover!(true, "end");
}

/// typ: any 6-byte string; accepted => typ == "kb+jwt"
#[kani::proof]
#[kani::unwind(4)]
#[kani::stub(alloc::fmt::format, fmt_stub)]
fn c04_typ() {
    let digest = presented_digest();
    let typ = sym_str::<6>(b'+', b'w');
    let typ_ok = streq(&typ, "kb+jwt");
    jm::register(KB, kb_header(Some(typ), Algorithm::ES256),
                 kb_claims(Some("nn".to_string()), Some("aud".to_string()), Some(digest)), holder_key_id());
    jm::expect(0, true);
    let mut v = mk_verifier(sym_format(), Some(cnf("EC", "k")), Some(KB));
    let r = v.verify_key_binding_jwt("aud".to_string(), "nn".to_string(), Some("ES256"));
    let ok = finish(r, v);
    assert!(ok == typ_ok, "C04.c1 key binding accepted iff typ is kb+jwt");
    kani::cover!(ok, "accepted");
    kani::cover!(!ok, "rejected");
    kani::cover!(true, "end");
}

/// typ absent
#[kani::proof]
#[kani::unwind(4)]
#[kani::stub(alloc::fmt::format, fmt_stub)]
fn c04_typ_absent() {
    let digest = presented_digest();
    jm::register(KB, kb_header(None, Algorithm::ES256),
                 kb_claims(Some("nn".to_string()), Some("aud".to_string()), Some(digest)), holder_key_id());
    jm::expect(0, true);
    let mut v = mk_verifier(sym_format(), Some(cnf("EC", "k")), Some(KB));
    let r = v.verify_key_binding_jwt("aud".to_string(), "nn".to_string(), Some("ES256"));
    let ok = finish(r, v);
    assert!(!ok, "C04.c2 key binding accepted without typ");
    kani::cover!(true, "end");
}

/// KB-JWT signed by any key other than the holder key confirmed in the verified payload
#[kani::proof]
#[kani::unwind(4)]
#[kani::stub(alloc::fmt::format, fmt_stub)]
fn c04_wrong_signer() {
    let digest = presented_digest();
    let signer: u64 = kani::any();
    kani::assume(signer != holder_key_id());
    jm::register(KB, kb_header(Some("kb+jwt".to_string()), Algorithm::ES256),
                 kb_claims(Some("nn".to_string()), Some("aud".to_string()), Some(digest)), signer);
    jm::expect(0, false);
    let mut v = mk_verifier(sym_format(), Some(cnf("EC", "k")), Some(KB));
    let r = v.verify_key_binding_jwt("aud".to_string(), "nn".to_string(), Some("ES256"));
    let ok = finish(r, v);
    assert!(!ok, "C04.d1 KB-JWT signed by another key accepted");
    let calls = jm::verify_calls();
    assert!(calls.len() == 1 && calls[0].key_id == holder_key_id(), "C04.d2 signature must be checked under the cnf.jwk key");
    kani::cover!(signer == jm::NO_KEY, "forged");
    kani::cover!(true, "end");
}

/// aud: symbolic claim vs symbolic expectation, different => rejected
#[kani::proof]
#[kani::unwind(4)]
#[kani::stub(alloc::fmt::format, fmt_stub)]
fn c04_wrong_aud() {
    let digest = presented_digest();
    let aud = sym_str::<2>(b'a', b'c');
    let expected = sym_str::<2>(b'a', b'c');
    kani::assume(!streq(&aud, &expected));
    jm::register(KB, kb_header(Some("kb+jwt".to_string()), Algorithm::ES256),
                 kb_claims(Some("nn".to_string()), Some(aud), Some(digest)), holder_key_id());
    jm::expect(0, false);
    let mut v = mk_verifier(sym_format(), Some(cnf("EC", "k")), Some(KB));
    let r = v.verify_key_binding_jwt(expected, "nn".to_string(), Some("ES256"));
    let ok = finish(r, v);
    assert!(!ok, "C04.e1 KB-JWT for another audience accepted");
    kani::cover!(true, "end");
}

/// aud absent
#[kani::proof]
#[kani::unwind(4)]
#[kani::stub(alloc::fmt::format, fmt_stub)]
fn c04_aud_absent() {
    let digest = presented_digest();
    jm::register(KB, kb_header(Some("kb+jwt".to_string()), Algorithm::ES256),
                 kb_claims(Some("nn".to_string()), None, Some(digest)), holder_key_id());
    jm::expect(0, false);
    let mut v = mk_verifier(sym_format(), Some(cnf("EC", "k")), Some(KB));
    let r = v.verify_key_binding_jwt("aud".to_string(), "nn".to_string(), Some("ES256"));
    let ok = finish(r, v);
    assert!(!ok, "C04.e2 KB-JWT without aud accepted");
    kani::cover!(true, "end");
}

/// nonce absent
#[kani::proof]
#[kani::unwind(4)]
#[kani::stub(alloc::fmt::format, fmt_stub)]
fn c04_nonce_absent() {
    let digest = presented_digest();
    jm::register(KB, kb_header(Some("kb+jwt".to_string()), Algorithm::ES256),
                 kb_claims(None, Some("aud".to_string()), Some(digest)), holder_key_id());
    jm::expect(0, true);
    let mut v = mk_verifier(sym_format(), Some(cnf("EC", "k")), Some(KB));
    let r = v.verify_key_binding_jwt("aud".to_string(), "nn".to_string(), Some("ES256"));
    let ok = finish(r, v);
    assert!(!ok, "C04.e3 KB-JWT without nonce accepted");
    kani::cover!(true, "end");
}

/// no KB-JWT at all / no cnf / cnf without jwk
#[kani::proof]
#[kani::unwind(4)]
#[kani::stub(alloc::fmt::format, fmt_stub)]
fn c04_kb_missing() {
    let mut v = mk_verifier(sym_format(), Some(cnf("EC", "k")), None);
    let r = v.verify_key_binding_jwt("aud".to_string(), "nn".to_string(), None);
    assert!(!finish(r, v), "C04.f1 presentation without KB-JWT accepted");
    let mut v = mk_verifier(sym_format(), None, Some(KB));
    let r = v.verify_key_binding_jwt("aud".to_string(), "nn".to_string(), Some("ES256"));
    assert!(!finish(r, v), "C04.f2 key binding accepted although the payload confirms no holder key");
    let mut v = mk_verifier(sym_format(), Some(JMap::new()), Some(KB));
    let r = v.verify_key_binding_jwt("aud".to_string(), "nn".to_string(), Some("ES256"));
    assert!(!finish(r, v), "C04.f3 key binding accepted although cnf has no jwk");
    assert!(jm::verify_calls().is_empty(), "C04.f4 nothing to verify");
    kani::cover!(true, "end");
}

/// algorithm of another key family than the holder key (HS256 keyed with an EC jwk; EdDSA vs EC)
#[kani::proof]
#[kani::unwind(4)]
#[kani::stub(alloc::fmt::format, fmt_stub)]
fn c04_alg_family_mismatch() {
    let digest = presented_digest();
    let hs: bool = kani::any();
    let alg = if hs { Algorithm::HS256 } else { Algorithm::EdDSA };
    jm::register(KB, kb_header(Some("kb+jwt".to_string()), alg),
                 kb_claims(Some("nn".to_string()), Some("aud".to_string()), Some(digest)), holder_key_id());
    jm::expect(0, false);
    let mut v = mk_verifier(sym_format(), Some(cnf("EC", "k")), Some(KB));
    let r = v.verify_key_binding_jwt("aud".to_string(), "nn".to_string(), Some(if hs { "HS256" } else { "EdDSA" }));
    let ok = finish(r, v);
    assert!(!ok, "C04.g1 KB-JWT with an algorithm of another key family accepted");
    kani::cover!(hs, "HS256 with EC key");
    kani::cover!(!hs, "EdDSA with EC key");
    kani::cover!(true, "end");
}
