//! C09 — validity window. Unit: SDJWTVerifier::verify_sd_jwt; the jsonwebtoken model runs the real
//! `validate()` arithmetic with the Validation the repo code builds; clock, exp and nbf are
//! symbolic u64. Each harness restricts (now, exp, nbf) to one region of the property, announces the
//! verdict the property requires there (models/jsonwebtoken: "verified hints") and the model asserts
//! that the library's real verdict equals it for EVERY value of the region.
use super::*;
include!("../common.rs");
use jsonwebtoken::model as jm;

const BAND: u64 = 120;

fn mk_verifier(payload: JMap<String, JValue>) -> SDJWTVerifier {
    SDJWTVerifier {
        sd_jwt_payload: JMap::new(),
        _holder_public_key_payload: None,
        duplicate_hash_check: Vec::new(),
        cb_get_issuer_key: Box::new(|_iss, _h| DecodingKey::model(jsonwebtoken::AlgorithmFamily::Ec, 7)),
        sd_jwt_engine: SDJWTCommon {
            unverified_sd_jwt: Some("h.p.s".to_string()),
            unverified_input_sd_jwt_payload: Some(payload),
            serialization_format: SDJWTSerializationFormat::Compact,
            ..Default::default()
        },
        verified_claims: JValue::Null,
    }
}

fn base_claims() -> JMap<String, JValue> {
    let mut m = JMap::new();
    put(&mut m, "iss", jstr("i"));
    m
}

fn run(claims: JMap<String, JValue>, now: u64, expect_ok: bool) -> bool {
    jm::register("h.p.s", Header::new(Algorithm::ES256), claims, 7);
    jm::set_now(now);
    jm::expect(0, expect_ok);
    let mut v = mk_verifier(base_claims());
    let r = v.verify_sd_jwt(Some("ES256".to_string()));
    let ok = r.is_ok();
    std::mem::forget(r);
    std::mem::forget(v);
    ok
}

fn sym_now() -> u64 {
    let now: u64 = kani::any();
    // jsonwebtoken computes now-60 and now+60 in u64: clocks within the band of the ends of the u64
    // range are outside the claim
    // realistic clocks: 2001-09-09 .. year ~5*10^11; keeps jsonwebtoken's own u64 arithmetic
    // (now - leeway, now + leeway) away from the ends of the range whatever leeway is configured
    kani::assume(now >= 1_000_000_000 && now <= u64::MAX / 2);
    now
}

/// exp more than the leeway in the past (nbf absent): rejected at every such (now, exp)
#[kani::proof]
#[kani::unwind(4)]
#[kani::stub(alloc::fmt::format, fmt_stub)]
fn c09_expired_rejected() {
    let now = sym_now();
    let exp: u64 = kani::any();
    kani::assume(exp < now - BAND);
    let mut c = base_claims();
    put(&mut c, "exp", jnum(exp));
    let ok = run(c, now, false);
    assert!(!ok, "C09.a1 expired credential accepted");
    kani::cover!(exp == 0, "exp = 0");
    kani::cover!(true, "end");
}

/// inside the window, no nbf: accepted at every such (now, exp)
#[kani::proof]
#[kani::unwind(4)]
#[kani::stub(alloc::fmt::format, fmt_stub)]
fn c09_valid_accepted() {
    let now = sym_now();
    let exp: u64 = kani::any();
    kani::assume(exp > now + BAND);
    let mut c = base_claims();
    put(&mut c, "exp", jnum(exp));
    let ok = run(c, now, true);
    assert!(ok, "C09.a2 credential inside its window rejected");
    kani::cover!(exp == u64::MAX, "exp = u64::MAX");
    kani::cover!(true, "end");
}

/// inside [nbf, exp]: accepted
#[kani::proof]
#[kani::unwind(4)]
#[kani::stub(alloc::fmt::format, fmt_stub)]
fn c09_valid_with_nbf_accepted() {
    let now = sym_now();
    let exp: u64 = kani::any();
    let nbf: u64 = kani::any();
    kani::assume(exp > now + BAND);
    kani::assume(nbf < now - BAND);
    let mut c = base_claims();
    put(&mut c, "exp", jnum(exp));
    put(&mut c, "nbf", jnum(nbf));
    let ok = run(c, now, true);
    assert!(ok, "C09.a3 credential inside [nbf, exp] rejected");
    kani::cover!(true, "end");
}

/// nbf more than the leeway in the future: rejected
#[kani::proof]
#[kani::unwind(4)]
#[kani::stub(alloc::fmt::format, fmt_stub)]
fn c09_immature_rejected() {
    let now = sym_now();
    let exp: u64 = kani::any();
    let nbf: u64 = kani::any();
    kani::assume(exp > now + BAND);
    kani::assume(nbf > now + BAND);
    let mut c = base_claims();
    put(&mut c, "exp", jnum(exp));
    put(&mut c, "nbf", jnum(nbf));
    let ok = run(c, now, false);
    assert!(!ok, "C09.a4 credential whose nbf lies in the future accepted");
    kani::cover!(true, "end");
}

/// exp absent / null / string / negative: rejected at every instant
#[kani::proof]
#[kani::unwind(4)]
#[kani::stub(alloc::fmt::format, fmt_stub)]
fn c09_exp_absent() {
    let ok = run(base_claims(), sym_now(), false);
    assert!(!ok, "C09.a5 exp absent accepted");
    kani::cover!(true, "end");
}

#[kani::proof]
#[kani::unwind(4)]
#[kani::stub(alloc::fmt::format, fmt_stub)]
fn c09_exp_null() {
    let mut c = base_claims();
    put(&mut c, "exp", JValue::Null);
    let ok = run(c, sym_now(), false);
    assert!(!ok, "C09.a6 exp null accepted");
    kani::cover!(true, "end");
}

#[kani::proof]
#[kani::unwind(4)]
#[kani::stub(alloc::fmt::format, fmt_stub)]
fn c09_exp_string() {
    let mut c = base_claims();
    put(&mut c, "exp", JValue::String(sym_str::<2>(b'0', b'9')));
    let ok = run(c, sym_now(), false);
    assert!(!ok, "C09.a7 exp given as a string accepted");
    kani::cover!(true, "end");
}

#[kani::proof]
#[kani::unwind(4)]
#[kani::stub(alloc::fmt::format, fmt_stub)]
fn c09_exp_negative() {
    let e: i64 = kani::any();
    kani::assume(e < 0);
    let mut c = base_claims();
    put(&mut c, "exp", JValue::Number(e.into()));
    let ok = run(c, sym_now(), false);
    assert!(!ok, "C09.a8 negative exp accepted");
    kani::cover!(true, "end");
}
