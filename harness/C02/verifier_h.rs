//! C02 — only an intact issuer-signed JWT under the resolver's key is accepted.
//! Unit: SDJWTVerifier::verify_sd_jwt on a directly built verifier; jsonwebtoken model = ideal
//! signature primitive (a token text verifies under exactly one key identity, an altered / forged /
//! spliced text under none), real algorithm / key-family checks of decode().
use super::*;
include!("../common.rs");
use jsonwebtoken::model as jm;
use jsonwebtoken::AlgorithmFamily as Fam;

const JWT: &str = "h.p.s";
const RESOLVER_KEY: u64 = 7 + (VERIF_SEED % 5) * 3;

static mut RESOLVER_CALLS: usize = 0;
static mut RESOLVER_ISS_OK: bool = false;
static mut RESOLVER_ALG: Option<Algorithm> = None;

fn mk_verifier(payload: JMap<String, JValue>, fam: Fam) -> SDJWTVerifier {
    SDJWTVerifier {
        sd_jwt_payload: JMap::new(),
        _holder_public_key_payload: None,
        duplicate_hash_check: Vec::new(),
        cb_get_issuer_key: Box::new(move |iss, h| {
            unsafe {
                RESOLVER_CALLS += 1;
                RESOLVER_ISS_OK = streq(iss, "i/");
                RESOLVER_ALG = Some(h.alg);
            }
            DecodingKey::model(fam, RESOLVER_KEY)
        }),
        sd_jwt_engine: SDJWTCommon {
            unverified_sd_jwt: Some(JWT.to_string()),
            unverified_input_sd_jwt_payload: Some(payload),
            serialization_format: SDJWTSerializationFormat::Compact,
            ..Default::default()
        },
        verified_claims: JValue::Null,
    }
}

fn unverified_payload() -> JMap<String, JValue> {
    let mut m = JMap::new();
    // an issuer identifier with a trailing slash: the resolver must be asked about exactly this string
    put(&mut m, "iss", jstr("i/"));
    put(&mut m, "k", jstr("unverified"));
    m
}

fn vouched_claims(k: String) -> JMap<String, JValue> {
    let mut m = JMap::new();
    put(&mut m, "iss", jstr("i/"));
    put(&mut m, "exp", jnum(5000));
    put(&mut m, "k", JValue::String(k));
    m
}

fn finish(r: Result<()>) -> bool {
    let ok = r.is_ok();
    std::mem::forget(r);
    ok
}

/// signed by ANY key identity other than the one the resolver returns (incl. "no key": forged,
/// altered, truncated or spliced text): rejected; the primitive is asked exactly about the presented
/// text, with the resolver's key and the header's algorithm.
#[kani::proof]
#[kani::unwind(4)]
#[kani::stub(alloc::fmt::format, fmt_stub)]
fn c02_wrong_key_rejected() {
    let signer: u64 = kani::any();
    kani::assume(signer != RESOLVER_KEY);
    // (a signature segment that does not even decode is the subject of c02_malformed_signature_rejected:
    // there the primitive is never asked)
    kani::assume(signer != jm::MALFORMED_SIGNATURE);
    jm::register(JWT, Header::new(Algorithm::ES256), vouched_claims("vv".to_string()), signer);
    jm::set_now(1000);
    jm::expect(0, false);
    let mut v = mk_verifier(unverified_payload(), Fam::Ec);
    let ok = finish(v.verify_sd_jwt(Some("ES256".to_string())));
    assert!(!ok, "C02.a1 token not signed by the resolver's key accepted");
    let calls = jm::verify_calls();
    assert!(calls.len() == 1, "C02.a2 signature primitive must be asked exactly once");
    assert!(streq(&calls[0].token, JWT) && calls[0].key_id == RESOLVER_KEY && calls[0].alg == Algorithm::ES256,
            "C02.a3 signature must be checked over the presented text, under the resolver's key, with the header algorithm");
    assert!(v.sd_jwt_payload.is_empty() && v._holder_public_key_payload.is_none(), "C02.a4 no claims may be taken over from a rejected token");
    kani::cover!(signer == jm::NO_KEY, "forged / altered");
    kani::cover!(signer == RESOLVER_KEY + 1, "another issuer's key");
    kani::cover!(true, "end");
    std::mem::forget(v);
}

/// honest token: accepted, claims come from what the primitive vouched for (never from the
/// unverified copy), resolver asked with the presented iss and header
#[kani::proof]
#[kani::unwind(4)]
#[kani::stub(alloc::fmt::format, fmt_stub)]
fn c02_honest_accepted_claims_from_verified() {
    let k = sym_str::<2>(b'a', b'z');
    let k0 = k.as_bytes()[0];
    let k1 = k.as_bytes()[1];
    jm::register(JWT, Header::new(Algorithm::ES256), vouched_claims(k), RESOLVER_KEY);
    jm::set_now(1000);
    jm::expect(0, true);
    let mut v = mk_verifier(unverified_payload(), Fam::Ec);
    let ok = finish(v.verify_sd_jwt(Some("ES256".to_string())));
    assert!(ok, "C02.b1 honest token rejected");
    let got = v.sd_jwt_payload.get("k").and_then(|x| x.as_str());
    assert!(match got { Some(s) => s.len() == 2 && s.as_bytes()[0] == k0 && s.as_bytes()[1] == k1, None => false },
            "C02.b2 claims must be the ones covered by the signature, not the unverified copy");
    unsafe {
        assert!(RESOLVER_CALLS == 1 && RESOLVER_ISS_OK && RESOLVER_ALG == Some(Algorithm::ES256),
                "C02.b3 resolver must be asked once, with the token's iss and header");
    }
    let calls = jm::verify_calls();
    assert!(calls.len() == 1 && calls[0].verdict && streq(&calls[0].token, JWT) && calls[0].key_id == RESOLVER_KEY,
            "C02.b4 accepted only after the primitive answered yes for the presented text and the resolver's key");
    kani::cover!(true, "end");
    std::mem::forget(v);
}

/// header says HS256 but the verifier is told ES256 (alg rewritten) / resolver key of another family
#[kani::proof]
#[kani::unwind(4)]
#[kani::stub(alloc::fmt::format, fmt_stub)]
fn c02_alg_rewritten_rejected() {
    jm::register(JWT, Header::new(Algorithm::HS256), vouched_claims("vv".to_string()), RESOLVER_KEY);
    jm::set_now(1000);
    jm::expect(0, false);
    let mut v = mk_verifier(unverified_payload(), Fam::Ec);
    let ok = finish(v.verify_sd_jwt(Some("ES256".to_string())));
    assert!(!ok, "C02.c1 header algorithm differs from the one validated: must be rejected");
    assert!(jm::verify_calls().is_empty(), "C02.c2 no signature check under a mismatching algorithm");
    kani::cover!(true, "end");
    std::mem::forget(v);
}

/// HS256 token checked with the issuer's EC public key (family mismatch)
#[kani::proof]
#[kani::unwind(4)]
#[kani::stub(alloc::fmt::format, fmt_stub)]
fn c02_key_family_mismatch_rejected() {
    jm::register(JWT, Header::new(Algorithm::HS256), vouched_claims("vv".to_string()), RESOLVER_KEY);
    jm::set_now(1000);
    jm::expect(0, false);
    let mut v = mk_verifier(unverified_payload(), Fam::Ec);
    let ok = finish(v.verify_sd_jwt(Some("HS256".to_string())));
    assert!(!ok, "C02.d1 HS256 keyed with a key of another family accepted");
    assert!(jm::verify_calls().is_empty(), "C02.d2 no signature check with a key of the wrong family");
    kani::cover!(true, "end");
    std::mem::forget(v);
}

/// alg 'none' / unknown algorithm name: error before anything is verified
#[kani::proof]
#[kani::unwind(4)]
#[kani::stub(alloc::fmt::format, fmt_stub)]
fn c02_alg_none_or_unknown_rejected() {
    jm::register(JWT, Header::new(Algorithm::ES256), vouched_claims("vv".to_string()), RESOLVER_KEY);
    jm::set_now(1000);
    let which: bool = kani::any();
    let mut v = mk_verifier(unverified_payload(), Fam::Ec);
    let ok = finish(v.verify_sd_jwt(Some(if which { "none".to_string() } else { "XX256".to_string() })));
    assert!(!ok, "C02.e1 alg none / unknown accepted");
    assert!(jm::decode_calls() == 0 && jm::verify_calls().is_empty(), "C02.e2 nothing may be decoded under an unknown algorithm");
    kani::cover!(which, "none");
    kani::cover!(!which, "unknown");
    kani::cover!(true, "end");
    std::mem::forget(v);
}

/// token text that is not a JWT the primitive knows (garbage / truncated): rejected
#[kani::proof]
#[kani::unwind(4)]
#[kani::stub(alloc::fmt::format, fmt_stub)]
fn c02_unknown_text_rejected() {
    jm::register("h.p.x", Header::new(Algorithm::ES256), vouched_claims("vv".to_string()), RESOLVER_KEY);
    jm::set_now(1000);
    let mut v = mk_verifier(unverified_payload(), Fam::Ec);
    let ok = finish(v.verify_sd_jwt(Some("ES256".to_string())));
    assert!(!ok, "C02.f1 a text that differs from every signed token accepted");
    kani::cover!(true, "end");
    std::mem::forget(v);
}

/// The token brings its own key in a `jwk` header member and is signed with it: the verifier must
/// still use the resolver's key (and therefore reject), and must ask the resolver.
#[kani::proof]
#[kani::unwind(4)]
#[kani::stub(alloc::fmt::format, fmt_stub)]
fn c02_header_jwk_is_not_a_trust_anchor() {
    let mut raw = JMap::new();
    put(&mut raw, "kty", jstr("EC"));
    put(&mut raw, "x", jstr("z"));
    let mut h = Header::new(Algorithm::ES256);
    h.jwk = Some(jsonwebtoken::jwk::Jwk { raw });
    // signed by the key in the header, not by the issuer
    jm::register(JWT, h, vouched_claims("vv".to_string()), jsonwebtoken::bytes_id(b"z"));
    jm::set_now(1000);
    jm::expect(0, false);
    let mut v = mk_verifier(unverified_payload(), Fam::Ec);
    let ok = finish(v.verify_sd_jwt(Some("ES256".to_string())));
    assert!(!ok, "C02.g1 token signed with the key from its own jwk header accepted");
    unsafe { assert!(RESOLVER_CALLS == 1, "C02.g2 the resolver must be asked for the key"); }
    let calls = jm::verify_calls();
    assert!(calls.len() == 1 && calls[0].key_id == RESOLVER_KEY, "C02.g3 signature must be checked under the resolver's key");
    kani::cover!(true, "end");
    std::mem::forget(v);
}

/// the holder-key confirmation (cnf) used later for key binding comes from the VERIFIED claims,
/// never from the unverified copy
#[kani::proof]
#[kani::unwind(4)]
#[kani::stub(alloc::fmt::format, fmt_stub)]
fn c02_cnf_taken_from_verified_claims() {
    let x = sym_str::<1>(b'a', b'z');
    let xb = x.as_bytes()[0];
    let mut jwk = JMap::new();
    put(&mut jwk, "kty", jstr("EC"));
    put(&mut jwk, "x", JValue::String(x));
    let mut cnf = JMap::new();
    put(&mut cnf, "jwk", JValue::Object(jwk));
    let mut claims = vouched_claims("vv".to_string());
    put(&mut claims, "cnf", JValue::Object(cnf));
    jm::register(JWT, Header::new(Algorithm::ES256), claims, RESOLVER_KEY);
    jm::set_now(1000);
    jm::expect(0, true);
    // the unverified copy claims another holder key
    let mut evil_jwk = JMap::new();
    put(&mut evil_jwk, "kty", jstr("EC"));
    put(&mut evil_jwk, "x", jstr("EVIL"));
    let mut evil_cnf = JMap::new();
    put(&mut evil_cnf, "jwk", JValue::Object(evil_jwk));
    let mut unverified = unverified_payload();
    put(&mut unverified, "cnf", JValue::Object(evil_cnf));
    let mut v = mk_verifier(unverified, Fam::Ec);
    let ok = finish(v.verify_sd_jwt(Some("ES256".to_string())));
    assert!(ok, "C02.h1 honest token rejected");
    let got = v._holder_public_key_payload.as_ref().and_then(|c| c.get("jwk")).and_then(|j| j.get("x")).and_then(|s| s.as_str());
    assert!(match got { Some(s) => s.len() == 1 && s.as_bytes()[0] == xb, None => false },
            "C02.h2 the confirmed holder key must be the one in the signature-verified payload");
    kani::cover!(true, "end");
    std::mem::forget(v);
}

/// signature segment that is not even base64url (decode() fails with a Base64 error before any
/// comparison): rejected, and nothing — in particular not the unverified payload copy — is taken over
#[kani::proof]
#[kani::unwind(4)]
#[kani::stub(alloc::fmt::format, fmt_stub)]
fn c02_malformed_signature_rejected() {
    jm::register(JWT, Header::new(Algorithm::ES256), vouched_claims("vv".to_string()), jm::MALFORMED_SIGNATURE);
    jm::set_now(1000);
    jm::expect(0, false);
    let mut v = mk_verifier(unverified_payload(), Fam::Ec);
    let ok = finish(v.verify_sd_jwt(Some("ES256".to_string())));
    assert!(!ok, "C02.i1 a token whose signature is not decodable must be rejected");
    assert!(v.sd_jwt_payload.is_empty() && v._holder_public_key_payload.is_none(), "C02.i2 no claims may be taken over from a rejected token");
    kani::cover!(true, "end");
    std::mem::forget(v);
}
