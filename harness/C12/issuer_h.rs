//! C12 / C05 (marking at one level) — Unit: SDJWTIssuer::create_sd_claims_object on a flat object.
//! SDJWTDisclosure::new is replaced by the disclosure hook (models/oracle.rs): digests are arbitrary
//! distinct strings (symbolic bytes), so "sorted" is decided for EVERY order the real digests could have.
use super::*;
include!("../common.rs");
use crate::verif_oracle as ho;
use jsonwebtoken::AlgorithmFamily as Fam;

fn mk_issuer(decoys: bool) -> SDJWTIssuer {
    SDJWTIssuer {
        sign_alg: "ES256".to_string(),
        add_decoy_claims: decoys,
        extra_header_parameters: None,
        issuer_key: EncodingKey::model(Fam::Ec, 7),
        holder_key: None,
        inner: Default::default(),
        all_disclosures: Vec::new(),
        sd_jwt_payload: Default::default(),
        signed_sd_jwt: String::new(),
        serialized_sd_jwt: String::new(),
    }
}

fn two_members() -> JMap<String, JValue> {
    let mut m = JMap::new();
    put(&mut m, "a", jnum(1));
    put(&mut m, "exp", jnum(2));
    m
}

fn le(a: &str, b: &str) -> bool {
    // lexicographic <= on 2-byte digests
    let (x, y) = (a.as_bytes(), b.as_bytes());
    x[0] < y[0] || (x[0] == y[0] && x[1] <= y[1])
}

/// AllLevels on {"a":1,"exp":2} (a NESTED object: iss/iat/exp are only special at the root, which
/// assemble_sd_jwt_payload handles): both members hidden, `_sd` holds exactly their two digests,
/// SORTED for every value the digests can take, nothing in clear, two disclosures issued in order.
#[kani::proof]
#[kani::unwind(4)]
#[kani::stub(alloc::fmt::format, fmt_stub)]
fn c12_sd_list_sorted_and_complete() {
    ho::hash_on(2, b'd');
    ho::disclosure_on();
    let mut iss = mk_issuer(false);
    let claims = two_members();
    let out = iss.create_sd_claims_object(&claims, ClaimsForSelectiveDisclosureStrategy::AllLevels);
    let o = match &out { JValue::Object(o) => o, _ => { assert!(false, "C12.a0 object stays object"); return; } };
    assert!(o.len() == 1, "C12.a1 hidden members must not appear in clear");
    let sd = match o.get("_sd") { Some(JValue::Array(a)) => a, _ => { assert!(false, "C12.a2 _sd list present"); return; } };
    assert!(sd.len() == 2, "C12.a3 with decoys off every digest belongs to an issued disclosure (exactly two)");
    let d0 = sd[0].as_str().unwrap();
    let d1 = sd[1].as_str().unwrap();
    assert!(le(d0, d1), "C12.a4 the _sd list must be sorted (its order must not reveal member order)");
    #[allow(static_mut_refs)]
    unsafe {
        assert!(ho::DISC_HASHES.len() == 2 && iss.all_disclosures.len() == 2, "C12.a5 one disclosure per hidden member");
        let h0 = &ho::DISC_HASHES[0];
        let h1 = &ho::DISC_HASHES[1];
        assert!((streq(d0, h0) && streq(d1, h1)) || (streq(d0, h1) && streq(d1, h0)), "C12.a6 the digests are those of the issued disclosures, each once");
        assert!(ho::DISC_NAMES[0].as_deref() == Some("a") && ho::DISC_NAMES[1].as_deref() == Some("exp"), "C12.a7 disclosures name the hidden members");
        kani::cover!(streq(d0, h1), "digest order differs from member order");
        kani::cover!(streq(d0, h0), "digest order equals member order");
    }
    kani::cover!(true, "end");
    std::mem::forget(out); std::mem::forget(iss); std::mem::forget(claims);
}

/// NoSDClaims: everything in clear, no `_sd`, no disclosure
#[kani::proof]
#[kani::unwind(4)]
#[kani::stub(alloc::fmt::format, fmt_stub)]
fn c12_nothing_hidden_no_sd_list() {
    ho::hash_on(2, b'd');
    ho::disclosure_on();
    let mut iss = mk_issuer(false);
    let claims = two_members();
    let out = iss.create_sd_claims_object(&claims, ClaimsForSelectiveDisclosureStrategy::NoSDClaims);
    let o = match &out { JValue::Object(o) => o, _ => { assert!(false); return; } };
    assert!(o.len() == 2 && !o.contains_key("_sd"), "C12.b1 no _sd list when nothing is hidden and decoys are off");
    assert!(o.get("a") == Some(&jnum(1)) && o.get("exp") == Some(&jnum(2)), "C12.b2 visible members keep their values");
    #[allow(static_mut_refs)]
    unsafe { assert!(ho::DISC_HASHES.is_empty() && iss.all_disclosures.is_empty(), "C12.b3 no disclosure issued"); }
    kani::cover!(true, "end");
    std::mem::forget(out); std::mem::forget(iss); std::mem::forget(claims);
}


/// three hidden members: `_sd` sorted for all 3! orders of the digests
#[kani::proof]
#[kani::unwind(5)]
#[kani::stub(alloc::fmt::format, fmt_stub)]
fn c12_three_digests_sorted() {
    ho::hash_on(2, b'd');
    ho::disclosure_on();
    let mut iss = mk_issuer(false);
    let mut claims = JMap::new();
    put(&mut claims, "a", jnum(1));
    put(&mut claims, "b", jnum(2));
    put(&mut claims, "c", jnum(3));
    let out = iss.create_sd_claims_object(&claims, ClaimsForSelectiveDisclosureStrategy::AllLevels);
    let o = match &out { JValue::Object(o) => o, _ => { assert!(false, "C12.c0 object stays object"); return; } };
    let sd = match o.get("_sd") { Some(JValue::Array(a)) => a, _ => { assert!(false, "C12.c1 _sd list present"); return; } };
    assert!(o.len() == 1 && sd.len() == 3, "C12.c2 three digests, nothing in clear");
    let (d0, d1, d2) = (sd[0].as_str().unwrap(), sd[1].as_str().unwrap(), sd[2].as_str().unwrap());
    assert!(le(d0, d1) && le(d1, d2), "C12.c3 the _sd list must be sorted");
    #[allow(static_mut_refs)]
    unsafe {
        let h = &ho::DISC_HASHES;
        assert!(h.len() == 3, "C12.c4 three disclosures");
        let present = |x: &str| streq(x, d0) || streq(x, d1) || streq(x, d2);
        assert!(present(&h[0]) && present(&h[1]) && present(&h[2]), "C12.c5 every issued disclosure is referenced");
        kani::cover!(streq(d0, &h[2]) && streq(d2, &h[0]), "reverse of member order");
        kani::cover!(streq(d0, &h[0]) && streq(d1, &h[1]), "member order");
    }
    kani::cover!(true, "end");
    std::mem::forget(out); std::mem::forget(iss); std::mem::forget(claims);
}
