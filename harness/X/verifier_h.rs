use super::*;
include!("../common.rs");
use jsonwebtoken::model as jm;

fn base_claims() -> JMap<String, JValue> {
    let mut m = JMap::new();
    put(&mut m, "iss", jstr("i"));
    m
}
#[kani::proof]
#[kani::unwind(4)]
fn y1_symnum_static_clone() {
    let e: u64 = kani::any();
    let mut c = base_claims();
    put(&mut c, "exp", jnum(e));
    jm::register("h.p.s", Header::new(Algorithm::ES256), c, 7);
    let m = jm::claims_of(0).clone();
    assert!(m.len() == 2);
    std::mem::forget(m);
}
#[kani::proof]
#[kani::unwind(4)]
fn y2_symnum_static_fork_clone() {
    let e: u64 = kani::any();
    let now: u64 = kani::any();
    let mut c = base_claims();
    put(&mut c, "exp", jnum(e));
    jm::register("h.p.s", Header::new(Algorithm::ES256), c, 7);
    let r: std::result::Result<(), Box<u64>> = if e < now { Err(Box::new(3)) } else { Ok(()) };
    let ok = r.is_ok();
    std::mem::forget(r);
    let m = jm::claims_of(0).clone();
    assert!(m.len() == 2);
    assert!(ok == (e >= now));
    std::mem::forget(m);
}
#[kani::proof]
#[kani::unwind(4)]
fn y3_numeric_then_clone() {
    let e: u64 = kani::any();
    let mut c = base_claims();
    put(&mut c, "exp", jnum(e));
    jm::register("h.p.s", Header::new(Algorithm::ES256), c, 7);
    let got = jm::claims_of(0).get("exp").and_then(|v| v.as_u64());
    assert!(got == Some(e));
    let m = jm::claims_of(0).clone();
    assert!(m.len() == 2);
    std::mem::forget(m);
}

#[kani::proof]
#[kani::unwind(4)]
#[kani::stub(alloc::fmt::format, fmt_stub)]
fn y4_decode_direct_ok() {
    let now: u64 = kani::any();
    kani::assume(now >= 240 && now <= u64::MAX - 240);
    let exp: u64 = kani::any();
    kani::assume(exp > now + 120);
    let mut c = base_claims();
    put(&mut c, "exp", jnum(exp));
    jm::register("h.p.s", Header::new(Algorithm::ES256), c, 7);
    jm::set_now(now);
    jm::expect(0, true);
    let key = DecodingKey::model(jsonwebtoken::AlgorithmFamily::Ec, 7);
    let r = jsonwebtoken::decode::<JMap<String, JValue>>("h.p.s", &key, &Validation::new(Algorithm::ES256));
    assert!(r.is_ok());
    std::mem::forget(r);
}
#[kani::proof]
#[kani::unwind(4)]
#[kani::stub(alloc::fmt::format, fmt_stub)]
fn y5_decode_direct_ok_concrete() {
    let mut c = base_claims();
    put(&mut c, "exp", jnum(5000));
    jm::register("h.p.s", Header::new(Algorithm::ES256), c, 7);
    jm::set_now(1000);
    jm::expect(0, true);
    let key = DecodingKey::model(jsonwebtoken::AlgorithmFamily::Ec, 7);
    let r = jsonwebtoken::decode::<JMap<String, JValue>>("h.p.s", &key, &Validation::new(Algorithm::ES256));
    assert!(r.is_ok());
    std::mem::forget(r);
}
