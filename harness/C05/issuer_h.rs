//! C05 — strategy semantics. Units: ClaimsForSelectiveDisclosureStrategy::{finalize_input,
//! sd_for_key, next_level} — the three functions that decide, for every member / array element the
//! issuer walks over, whether it becomes selectively disclosable and which paths apply below it.
//! Paths and keys are symbolic byte strings over a small alphabet.
use super::*;
include!("../common.rs");

type Strat<'a> = ClaimsForSelectiveDisclosureStrategy<'a>;

/// 3 bytes over {a, b, '.', '['}
fn sym_path3() -> String {
    let s = sym_str::<3>(b'.', b'b');
    let b = s.as_bytes();
    let mut i = 0;
    while i < 3 {
        kani::assume(b[i] == b'a' || b[i] == b'b' || b[i] == b'.' || b[i] == b'[');
        i += 1;
    }
    s
}

fn sym_key1() -> String {
    let s = sym_str::<1>(b'a', b'b');
    s
}

/// Custom([p]): a key is designated iff the path equals it; the strategy for the level below
/// holds exactly the remainder after `key.` (next token) or from `[` on (array index); nothing else.
#[kani::proof]
#[kani::unwind(5)]
fn c05_custom_one_path() {
    let p = sym_path3();
    let k = sym_key1();
    let pb0 = p.as_bytes()[0];
    let pb1 = p.as_bytes()[1];
    let pb2 = p.as_bytes()[2];
    let kb = k.as_bytes()[0];
    let mut paths: Vec<&str> = Vec::with_capacity(1);
    paths.push(p.as_str());
    let strat = Strat::Custom(paths);
    // |p| = 3, |k| = 1: never equal
    assert!(!strat.sd_for_key(k.as_str()), "C05.a1 a key is selectively disclosable only if a path equals it");
    let next = strat.next_level(k.as_str());
    match &next {
        Strat::Custom(v) => {
            if pb0 == kb && pb1 == b'.' {
                assert!(v.len() == 1 && v[0].len() == 1 && v[0].as_bytes()[0] == pb2, "C05.a2 child strategy after `key.` is the remainder");
            } else if pb0 == kb && pb1 == b'[' {
                assert!(v.len() == 1 && v[0].len() == 2 && v[0].as_bytes()[0] == b'[' && v[0].as_bytes()[1] == pb2, "C05.a3 child strategy for an array index keeps the `[`");
            } else {
                assert!(v.is_empty(), "C05.a4 a path that does not continue this key has no effect below it");
            }
            kani::cover!(v.len() == 1, "path continues below the key");
            kani::cover!(v.is_empty(), "path does not apply");
        }
        _ => assert!(false, "C05.a5 Custom stays Custom"),
    }
    kani::cover!(true, "end");
    std::mem::forget(next);
    std::mem::forget(strat);
}

/// Custom([p1, p2]) with 1-byte paths: sd_for_key(k) <=> k is one of them
#[kani::proof]
#[kani::unwind(5)]
fn c05_custom_sd_for_key() {
    let p1 = sym_key1();
    let p2 = sym_key1();
    let k = sym_key1();
    let expect = p1.as_bytes()[0] == k.as_bytes()[0] || p2.as_bytes()[0] == k.as_bytes()[0];
    let mut paths: Vec<&str> = Vec::with_capacity(2);
    paths.push(p1.as_str());
    paths.push(p2.as_str());
    let strat = Strat::Custom(paths);
    let got = strat.sd_for_key(k.as_str());
    assert!(got == expect, "C05.b1 exactly the listed paths are selectively disclosable");
    kani::cover!(got, "designated");
    kani::cover!(!got, "not designated");
    kani::cover!(true, "end");
    std::mem::forget(strat);
}

/// NoSDClaims / TopLevel / AllLevels follow their definitions for every key
#[kani::proof]
#[kani::unwind(5)]
fn c05_fixed_strategies() {
    let k = sym_key1();
    assert!(!Strat::NoSDClaims.sd_for_key(k.as_str()), "C05.c1 NoSDClaims designates nothing");
    assert!(Strat::TopLevel.sd_for_key(k.as_str()), "C05.c2 TopLevel designates every top-level member");
    assert!(Strat::AllLevels.sd_for_key(k.as_str()), "C05.c3 AllLevels designates every member");
    assert!(Strat::NoSDClaims.next_level(k.as_str()) == Strat::NoSDClaims, "C05.c4 below NoSDClaims: NoSDClaims");
    assert!(Strat::TopLevel.next_level(k.as_str()) == Strat::NoSDClaims, "C05.c5 below TopLevel nothing is hidden");
    assert!(Strat::AllLevels.next_level(k.as_str()) == Strat::AllLevels, "C05.c6 AllLevels at every depth");
    kani::cover!(true, "end");
}

/// finalize_input: a path is accepted iff it starts with `$.`, and is then replaced by the rest
#[kani::proof]
#[kani::unwind(6)]
#[kani::stub(alloc::fmt::format, fmt_stub)]
fn c05_finalize_input() {
    let s = sym_str::<4>(b'$', b'b');
    let b0 = s.as_bytes()[0];
    let b1 = s.as_bytes()[1];
    let b2 = s.as_bytes()[2];
    let b3 = s.as_bytes()[3];
    let mut paths: Vec<&str> = Vec::with_capacity(1);
    paths.push(s.as_str());
    let mut strat = Strat::Custom(paths);
    let r = strat.finalize_input();
    let ok = r.is_ok();
    std::mem::forget(r);
    assert!(ok == (b0 == b'$' && b1 == b'.'), "C05.d1 a strategy path is accepted iff it starts with `$.`");
    if ok {
        match &strat {
            Strat::Custom(v) => assert!(v.len() == 1 && v[0].len() == 2 && v[0].as_bytes()[0] == b2 && v[0].as_bytes()[1] == b3, "C05.d2 the `$.` prefix is stripped, nothing else"),
            _ => assert!(false),
        }
    }
    kani::cover!(ok, "accepted");
    kani::cover!(!ok, "refused");
    kani::cover!(true, "end");
    std::mem::forget(strat);
}

/// Custom([p1, p2]), both 3 bytes: the child strategy holds the remainder of EACH path that
/// continues the key, in list order, and nothing else.
#[kani::proof]
#[kani::unwind(5)]
fn c05_custom_two_paths_next_level() {
    let p1 = sym_path3();
    let p2 = sym_path3();
    let k = sym_key1();
    let kb = k.as_bytes()[0];
    let c1 = p1.as_bytes()[0] == kb && (p1.as_bytes()[1] == b'.' || p1.as_bytes()[1] == b'[');
    let c2 = p2.as_bytes()[0] == kb && (p2.as_bytes()[1] == b'.' || p2.as_bytes()[1] == b'[');
    let l1 = if p1.as_bytes()[1] == b'.' { 1 } else { 2 };
    let l2 = if p2.as_bytes()[1] == b'.' { 1 } else { 2 };
    let (p1b2, p2b2) = (p1.as_bytes()[2], p2.as_bytes()[2]);
    let mut paths: Vec<&str> = Vec::with_capacity(2);
    paths.push(p1.as_str());
    paths.push(p2.as_str());
    let strat = Strat::Custom(paths);
    let next = strat.next_level(k.as_str());
    match &next {
        Strat::Custom(v) => {
            assert!(v.len() == (c1 as usize) + (c2 as usize), "C05.e1 the child strategy has one entry per path that continues the key");
            if c1 { assert!(v[0].len() == l1 && v[0].as_bytes()[l1 - 1] == p1b2, "C05.e2 first continuing path keeps its remainder, first"); }
            if c2 { let i = c1 as usize; assert!(v[i].len() == l2 && v[i].as_bytes()[l2 - 1] == p2b2, "C05.e3 second continuing path keeps its remainder, after the first"); }
            kani::cover!(v.len() == 2, "both continue");
            kani::cover!(v.len() == 0, "none continues");
        }
        _ => assert!(false, "C05.e4 Custom stays Custom"),
    }
    kani::cover!(true, "end");
    std::mem::forget(next);
    std::mem::forget(strat);
}

/// array positions: key "[0]" (what create_sd_claims_list asks), path = any 5 bytes over {[,0,1,],.,a}
#[kani::proof]
#[kani::unwind(7)]
fn c05_custom_array_index_key() {
    let s = sym_str::<5>(b'.', b'a');
    let b = s.as_bytes();
    let mut i = 0;
    while i < 5 {
        kani::assume(b[i] == b'[' || b[i] == b'0' || b[i] == b'1' || b[i] == b']' || b[i] == b'.' || b[i] == b'a');
        i += 1;
    }
    let (b0, b1, b2, b3, b4) = (b[0], b[1], b[2], b[3], b[4]);
    let mut paths: Vec<&str> = Vec::with_capacity(1);
    paths.push(s.as_str());
    let strat = Strat::Custom(paths);
    assert!(!strat.sd_for_key("[0]"), "C05.f1 a 5-byte path never equals the 3-byte key [0]");
    let next = strat.next_level("[0]");
    let is_prefix = b0 == b'[' && b1 == b'0' && b2 == b']';
    match &next {
        Strat::Custom(v) => {
            if is_prefix && b3 == b'.' {
                assert!(v.len() == 1 && v[0].len() == 1 && v[0].as_bytes()[0] == b4, "C05.f2 `[0].x` continues below element 0 as `x`");
            } else if is_prefix && b3 == b'[' {
                assert!(v.len() == 1 && v[0].len() == 2 && v[0].as_bytes()[0] == b'[' && v[0].as_bytes()[1] == b4, "C05.f3 `[0][..` continues below element 0 from the `[`");
            } else {
                assert!(v.is_empty(), "C05.f4 a path for another element / not at a token boundary has no effect below element 0");
            }
            kani::cover!(v.len() == 1, "continues");
            kani::cover!(v.is_empty(), "does not apply");
        }
        _ => assert!(false, "C05.f5 Custom stays Custom"),
    }
    kani::cover!(true, "end");
    std::mem::forget(next);
    std::mem::forget(strat);
}

/// longer names: key = any 2 bytes over {a,b}, path = any 5 bytes over {a,b,.,[} — the key must end at a
/// token boundary of the path (`ab` continues `ab.xy` and `ab[x]`, but not `abb.x`)
#[kani::proof]
#[kani::unwind(7)]
fn c05_custom_two_byte_key_boundary() {
    let p = sym_str::<5>(b'.', b'b');
    let pb = p.as_bytes();
    let mut i = 0;
    while i < 5 {
        kani::assume(pb[i] == b'a' || pb[i] == b'b' || pb[i] == b'.' || pb[i] == b'[');
        i += 1;
    }
    let k = sym_str::<2>(b'a', b'b');
    let kb = k.as_bytes();
    let (p0, p1, p2, p3, p4) = (pb[0], pb[1], pb[2], pb[3], pb[4]);
    let starts = p0 == kb[0] && p1 == kb[1];
    let mut paths: Vec<&str> = Vec::with_capacity(1);
    paths.push(p.as_str());
    let strat = Strat::Custom(paths);
    assert!(!strat.sd_for_key(k.as_str()), "C05.g1 a longer path never designates the key itself");
    let next = strat.next_level(k.as_str());
    match &next {
        Strat::Custom(v) => {
            if starts && p2 == b'.' {
                assert!(v.len() == 1 && v[0].len() == 2 && v[0].as_bytes()[0] == p3 && v[0].as_bytes()[1] == p4, "C05.g2 after `key.` the remainder applies below");
            } else if starts && p2 == b'[' {
                assert!(v.len() == 1 && v[0].len() == 3 && v[0].as_bytes()[0] == b'[' && v[0].as_bytes()[1] == p3 && v[0].as_bytes()[2] == p4, "C05.g3 an array index after the key is kept with its `[`");
            } else {
                assert!(v.is_empty(), "C05.g4 a path whose first token is not exactly the key has no effect below it");
            }
            kani::cover!(v.len() == 1, "continues");
            kani::cover!(starts && v.is_empty(), "key is a proper prefix of the first token");
        }
        _ => assert!(false, "C05.g5 Custom stays Custom"),
    }
    kani::cover!(true, "end");
    std::mem::forget(next);
    std::mem::forget(strat);
}

/// equal lengths: Custom([p]) designates k iff p == k (2-byte names)
#[kani::proof]
#[kani::unwind(5)]
fn c05_custom_equal_length_names() {
    let p = sym_str::<2>(b'a', b'c');
    let k = sym_str::<2>(b'a', b'c');
    let eq = p.as_bytes()[0] == k.as_bytes()[0] && p.as_bytes()[1] == k.as_bytes()[1];
    let mut paths: Vec<&str> = Vec::with_capacity(1);
    paths.push(p.as_str());
    let strat = Strat::Custom(paths);
    assert!(strat.sd_for_key(k.as_str()) == eq, "C05.h1 designated iff the path equals the name");
    match strat.next_level(k.as_str()) {
        Strat::Custom(v) => { assert!(v.is_empty(), "C05.h2 a path that ends at the key has nothing to say below it"); std::mem::forget(v); }
        _ => assert!(false, "C05.h3 Custom stays Custom"),
    }
    kani::cover!(eq, "designated");
    kani::cover!(!eq, "not designated");
    kani::cover!(true, "end");
    std::mem::forget(strat);
}

/// two-digit array index: key "[10]", path = any 6 bytes over {[,0,1,],.,a}
#[kani::proof]
#[kani::unwind(8)]
fn c05_custom_two_digit_index_key() {
    let s = sym_str::<6>(b'.', b'a');
    let b = s.as_bytes();
    let mut i = 0;
    while i < 6 {
        kani::assume(b[i] == b'[' || b[i] == b'0' || b[i] == b'1' || b[i] == b']' || b[i] == b'.' || b[i] == b'a');
        i += 1;
    }
    let (b0, b1, b2, b3, b4, b5) = (b[0], b[1], b[2], b[3], b[4], b[5]);
    let mut paths: Vec<&str> = Vec::with_capacity(1);
    paths.push(s.as_str());
    let strat = Strat::Custom(paths);
    let next = strat.next_level("[10]");
    let is_prefix = b0 == b'[' && b1 == b'1' && b2 == b'0' && b3 == b']';
    match &next {
        Strat::Custom(v) => {
            if is_prefix && b4 == b'.' {
                assert!(v.len() == 1 && v[0].len() == 1 && v[0].as_bytes()[0] == b5, "C05.j1 `[10].x` continues below element 10 as `x`");
            } else if is_prefix && b4 == b'[' {
                assert!(v.len() == 1 && v[0].len() == 2 && v[0].as_bytes()[0] == b'[' && v[0].as_bytes()[1] == b5, "C05.j2 `[10][..` continues below element 10 from the `[`");
            } else {
                assert!(v.is_empty(), "C05.j3 a path for another element has no effect below element 10");
            }
            kani::cover!(v.len() == 1, "continues");
        }
        _ => assert!(false, "C05.j4 Custom stays Custom"),
    }
    // and the element itself: a 4-byte path designates element 10 iff it is exactly "[10]"
    let t = sym_str::<4>(b'0', b']');
    let tb = t.as_bytes();
    let is_10 = tb[0] == b'[' && tb[1] == b'1' && tb[2] == b'0' && tb[3] == b']';
    let mut p2: Vec<&str> = Vec::with_capacity(1);
    p2.push(t.as_str());
    let strat2 = Strat::Custom(p2);
    assert!(strat2.sd_for_key("[10]") == is_10, "C05.j5 element 10 is designated iff a path equals [10]");
    kani::cover!(is_10, "element 10 designated");
    kani::cover!(true, "end");
    std::mem::forget(next); std::mem::forget(strat); std::mem::forget(strat2);
}

// ---------------------------------------------------------------------------------------------
// marking at one level: create_sd_claims_object on {"a":1,"b":2} with SDJWTDisclosure::new replaced
// by the disclosure hook. The path is concrete per harness (a symbolic path makes the two marking
// branches build differently shaped heaps, which CBMC cannot merge in time); that sd_for_key /
// next_level behave correctly for EVERY path is what the harnesses above decide.
use crate::verif_oracle as ho;

fn mk_issuer() -> SDJWTIssuer {
    SDJWTIssuer {
        sign_alg: "ES256".to_string(),
        add_decoy_claims: false,
        extra_header_parameters: None,
        issuer_key: EncodingKey::model(jsonwebtoken::AlgorithmFamily::Ec, 7),
        holder_key: None,
        inner: Default::default(),
        all_disclosures: Vec::new(),
        sd_jwt_payload: Default::default(),
        signed_sd_jwt: String::new(),
        serialized_sd_jwt: String::new(),
    }
}

fn mark_with_path(path: &str, a_hidden: bool, b_hidden: bool) {
    ho::hash_on(2, b'd');
    ho::disclosure_on();
    let mut iss = mk_issuer();
    let mut claims = JMap::new();
    put(&mut claims, "a", jnum(1));
    put(&mut claims, "b", jnum(2));
    let mut paths: Vec<&str> = Vec::with_capacity(1);
    paths.push(path);
    let out = iss.create_sd_claims_object(&claims, Strat::Custom(paths));
    let o = match &out { JValue::Object(o) => o, _ => { assert!(false, "C05.m0 object stays object"); return; } };
    assert!(o.contains_key("a") == !a_hidden, "C05.m1 member a is in clear iff no path designates it");
    assert!(o.contains_key("b") == !b_hidden, "C05.m2 member b is in clear iff no path designates it");
    assert!(o.contains_key("_sd") == (a_hidden || b_hidden), "C05.m3 _sd present iff something is hidden");
    let n = (a_hidden as usize) + (b_hidden as usize);
    assert!(iss.all_disclosures.len() == n, "C05.m4 exactly one disclosure per hidden member; a path naming no claim has no effect");
    if n == 1 {
        let sd = match o.get("_sd") { Some(JValue::Array(x)) => x, _ => { assert!(false, "C05.m5 _sd is a list"); return; } };
        #[allow(static_mut_refs)]
        unsafe {
            assert!(sd.len() == 1 && streq(sd[0].as_str().unwrap(), &ho::DISC_HASHES[0]), "C05.m6 the hidden member is represented by the digest of its disclosure, at its own level");
            assert!(ho::DISC_NAMES[0].as_deref() == Some(if a_hidden { "a" } else { "b" }), "C05.m7 the disclosure carries the hidden member's name");
            assert!(ho::DISC_VALUES[0] == jnum(if a_hidden { 1 } else { 2 }), "C05.m8 the disclosure carries the hidden member's value");
        }
    }
    kani::cover!(true, "end");
    std::mem::forget(out); std::mem::forget(iss); std::mem::forget(claims);
}

#[kani::proof]
#[kani::unwind(4)]
#[kani::stub(alloc::fmt::format, fmt_stub)]
fn c05_mark_path_a() { mark_with_path("a", true, false); }

#[kani::proof]
#[kani::unwind(4)]
#[kani::stub(alloc::fmt::format, fmt_stub)]
fn c05_mark_path_b() { mark_with_path("b", false, true); }

#[kani::proof]
#[kani::unwind(4)]
#[kani::stub(alloc::fmt::format, fmt_stub)]
fn c05_mark_path_names_no_claim() { mark_with_path("c", false, false); }

/// AllLevels below the root: EVERY member is hidden — also one that happens to be called `exp`
/// (iss / iat / exp are always-visible at the ROOT only, which assemble_sd_jwt_payload handles).
#[kani::proof]
#[kani::unwind(4)]
#[kani::stub(alloc::fmt::format, fmt_stub)]
fn c05_alllevels_hides_every_nested_member() {
    ho::hash_on(2, b'd');
    ho::disclosure_on();
    let mut iss = mk_issuer();
    let mut claims = JMap::new();
    put(&mut claims, "a", jnum(1));
    put(&mut claims, "exp", jnum(2));
    let out = iss.create_sd_claims_object(&claims, Strat::AllLevels);
    let o = match &out { JValue::Object(o) => o, _ => { assert!(false, "C05.n0 object stays object"); return; } };
    assert!(!o.contains_key("a") && !o.contains_key("exp"), "C05.n1 under AllLevels every member of a nested object is hidden");
    assert!(iss.all_disclosures.len() == 2, "C05.n2 one disclosure per hidden member");
    let sd = match o.get("_sd") { Some(JValue::Array(x)) => x, _ => { assert!(false, "C05.n3 _sd is a list"); return; } };
    assert!(sd.len() == 2, "C05.n4 every issued disclosure is referenced by exactly one digest");
    kani::cover!(true, "end");
    std::mem::forget(out); std::mem::forget(iss); std::mem::forget(claims);
}

/// two listed members, listed in the OPPOSITE order of the claims: both hidden
#[kani::proof]
#[kani::unwind(4)]
#[kani::stub(alloc::fmt::format, fmt_stub)]
fn c05_mark_two_paths_in_any_order() {
    ho::hash_on(2, b'd');
    ho::disclosure_on();
    let mut iss = mk_issuer();
    let mut claims = JMap::new();
    put(&mut claims, "a", jnum(1));
    put(&mut claims, "b", jnum(2));
    put(&mut claims, "c", jnum(3));
    let mut paths: Vec<&str> = Vec::with_capacity(2);
    paths.push("c");
    paths.push("a");
    let out = iss.create_sd_claims_object(&claims, Strat::Custom(paths));
    let o = match &out { JValue::Object(o) => o, _ => { assert!(false, "C05.p0 object stays object"); return; } };
    assert!(!o.contains_key("a") && !o.contains_key("c"), "C05.p1 every listed member is hidden, whatever the order of the path list");
    assert!(o.contains_key("b"), "C05.p2 an unlisted sibling stays in clear");
    assert!(iss.all_disclosures.len() == 2, "C05.p3 one disclosure per hidden member");
    let sd = match o.get("_sd") { Some(JValue::Array(x)) => x, _ => { assert!(false, "C05.p4 _sd is a list"); return; } };
    assert!(sd.len() == 2, "C05.p5 every issued disclosure is referenced by exactly one digest");
    kani::cover!(true, "end");
    std::mem::forget(out); std::mem::forget(iss); std::mem::forget(claims);
}

/// arrays: create_sd_claims_list marks BY POSITION — [1, 1] under Custom(["[1]"]): element 1 is replaced
/// by a placeholder {"...": digest}, element 0 (equal value!) stays in clear
#[kani::proof]
#[kani::unwind(4)]
// (no fmt stub here: create_sd_claims_list builds its keys with format!("[{idx}]"))
fn c05_list_marks_by_position() {
    ho::hash_on(2, b'd');
    ho::disclosure_on();
    let mut iss = mk_issuer();
    let mut list: Vec<JValue> = Vec::with_capacity(2);
    list.push(jnum(1));
    list.push(jnum(1));
    let mut paths: Vec<&str> = Vec::with_capacity(1);
    paths.push("[1]");
    let out = iss.create_sd_claims_list(&list, Strat::Custom(paths));
    let a = match &out { JValue::Array(a) => a, _ => { assert!(false, "C05.l0 array stays array"); return; } };
    assert!(a.len() == 2, "C05.l1 an array keeps its length; hidden elements are replaced in place");
    assert!(a[0] == jnum(1), "C05.l2 the undesignated element stays in clear");
    let ph = match &a[1] { JValue::Object(o) => o, _ => { assert!(false, "C05.l3 the designated element becomes a placeholder object"); return; } };
    #[allow(static_mut_refs)]
    unsafe {
        assert!(iss.all_disclosures.len() == 1 && ho::DISC_HASHES.len() == 1, "C05.l4 exactly one disclosure for the one designated element");
        assert!(ph.len() == 1 && ph.get("...").and_then(|d| d.as_str()).map(|d| streq(d, &ho::DISC_HASHES[0])).unwrap_or(false), "C05.l5 the placeholder holds the digest of that disclosure");
        assert!(ho::DISC_NAMES[0].is_none() && ho::DISC_VALUES[0] == jnum(1), "C05.l6 an array-element disclosure has no name and carries the element");
    }
    kani::cover!(true, "end");
    std::mem::forget(out); std::mem::forget(iss); std::mem::forget(list);
}
