//! C11 (issuer side, state hygiene) — Unit: SDJWTIssuer::issue_sd_jwt on an instance that carries
//! arbitrary leftovers of an earlier issuance, called with claims that are not an object (the cheapest
//! call that gets past the guards): it fails, and it leaves NOTHING of the earlier issuance behind —
//! so the next call starts from the same state as on a fresh instance.
use super::*;
include!("../common.rs");
use jsonwebtoken::AlgorithmFamily as Fam;
use crate::verif_hashmap::HashMap;

fn stale_issuer() -> SDJWTIssuer {
    let mut stale_payload = JMap::new();
    put(&mut stale_payload, "stale", jnum(1));
    let mut old = Vec::with_capacity(1);
    old.push(SDJWTDisclosure { raw_b64: sym_str::<2>(b'a', b'z'), hash: sym_str::<2>(b'a', b'z') });
    SDJWTIssuer {
        sign_alg: "ES256".to_string(),
        add_decoy_claims: true,
        extra_header_parameters: None,
        issuer_key: EncodingKey::model(Fam::Ec, 7),
        holder_key: None,
        inner: SDJWTCommon { serialization_format: SDJWTSerializationFormat::JSON, ..Default::default() },
        all_disclosures: old,
        sd_jwt_payload: stale_payload,
        signed_sd_jwt: sym_str::<3>(b'a', b'z'),
        serialized_sd_jwt: sym_str::<3>(b'a', b'z'),
    }
}

/// reset() — what issue_sd_jwt calls before building anything — clears every per-issuance field,
/// whatever the leftovers are.
#[kani::proof]
#[kani::unwind(5)]
fn c11_issuer_reset_clears_every_per_issuance_field() {
    let mut iss = stale_issuer();
    let mut extra = HashMap::new();
    std::mem::forget(extra.insert("k".to_string(), "v".to_string()));
    iss.extra_header_parameters = Some(extra);
    iss.reset();
    assert!(iss.all_disclosures.is_empty(), "C11.r1 disclosures of an earlier issuance must not survive reset()");
    assert!(iss.sd_jwt_payload.is_empty(), "C11.r2 payload of an earlier issuance must not survive reset()");
    assert!(iss.signed_sd_jwt.is_empty() && iss.serialized_sd_jwt.is_empty(), "C11.r3 earlier signed / serialized output must not survive reset()");
    assert!(iss.extra_header_parameters.is_none(), "C11.r4 extra header parameters must not survive reset()");
    kani::cover!(true, "end");
    std::mem::forget(iss);
}

#[kani::proof]
#[kani::unwind(5)]
#[kani::stub(alloc::fmt::format, fmt_stub)]
fn c11_issuer_failed_call_leaves_no_leftovers() {
    let mut iss = stale_issuer();
    let decoys: bool = kani::any();
    let compact: bool = kani::any();
    let format = if compact { SDJWTSerializationFormat::Compact } else { SDJWTSerializationFormat::JSON };
    let r = iss.issue_sd_jwt(JValue::Null, ClaimsForSelectiveDisclosureStrategy::NoSDClaims, None, decoys, format);
    assert!(r.is_err(), "C11.i1 claims that are not an object must be refused");
    assert!(iss.all_disclosures.is_empty(), "C11.i2 disclosures of an earlier issuance must not survive into the next call");
    assert!(iss.sd_jwt_payload.is_empty(), "C11.i3 payload of an earlier issuance must not survive");
    assert!(iss.signed_sd_jwt.is_empty() && iss.serialized_sd_jwt.is_empty(), "C11.i4 earlier signed / serialized output must not survive");
    assert!(iss.add_decoy_claims == decoys, "C11.i5 the decoy flag is the one of this call");
    assert!((iss.inner.serialization_format == SDJWTSerializationFormat::Compact) == compact, "C11.i6 the format is the one of this call");
    assert!(iss.holder_key.is_none(), "C11.i7 the holder key is the one of this call (none)");
    kani::cover!(decoys && compact, "decoys on, compact");
    kani::cover!(!decoys && !compact, "decoys off, json");
    kani::cover!(true, "end");
    std::mem::forget(r); std::mem::forget(iss);
}
