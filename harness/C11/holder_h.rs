//! C11 (holder side) — a holder instance can produce any number of presentations, in either format,
//! and a presentation depends only on the arguments of that call. Unit: SDJWTHolder::create_presentation
//! called TWICE on one directly built holder (empty selection, no key binding), both formats; the
//! three JWT parts are symbolic strings.
use super::*;
include!("../common.rs");

fn mk_holder(format: SDJWTSerializationFormat, p: String, q: String, r: String) -> SDJWTHolder {
    let mut jwt = String::with_capacity(8);
    jwt.push_str(&p); jwt.push('.'); jwt.push_str(&q); jwt.push('.'); jwt.push_str(&r);
    SDJWTHolder {
        sd_jwt_engine: SDJWTCommon { serialization_format: format, ..Default::default() },
        hs_disclosures: Vec::new(),
        key_binding_jwt_header: HashMap::new(),
        key_binding_jwt_payload: HashMap::new(),
        // stale leftovers of an earlier key-bound presentation
        serialized_key_binding_jwt: "old.kb.jwt".to_string(),
        sd_jwt_payload: JMap::new(),
        serialized_sd_jwt: jwt,
        sd_jwt_json: Some(SDJWTJson { protected: p, payload: q, signature: r, disclosures: Vec::new(), kb_jwt: None }),
    }
}

fn present(h: &mut SDJWTHolder) -> Option<String> {
    match h.create_presentation(JMap::new(), None, None, None, None) {
        Ok(s) => Some(s),
        Err(e) => { std::mem::forget(e); None }
    }
}

/// Compact: jwt~ (no disclosures selected, no KB-JWT), twice the same, stale KB-JWT never leaks
#[kani::proof]
#[kani::unwind(8)]
fn c11_holder_two_compact_presentations() {
    let p = sym_str::<1>(b'a', b'z');
    let q = sym_str::<1>(b'a', b'z');
    let r = sym_str::<1>(b'a', b'z');
    let (pb, qb, rb) = (p.as_bytes()[0], q.as_bytes()[0], r.as_bytes()[0]);
    let mut h = mk_holder(SDJWTSerializationFormat::Compact, p, q, r);
    let first = present(&mut h);
    let second = present(&mut h);
    match (&first, &second) {
        (Some(a), Some(b)) => {
            let ab = a.as_bytes();
            assert!(ab.len() == 6 && ab[0] == pb && ab[1] == b'.' && ab[2] == qb && ab[3] == b'.' && ab[4] == rb && ab[5] == b'~',
                    "C11.h1 compact presentation without disclosures and key binding is exactly jwt~");
            assert!(streq(a, b), "C11.h2 the second presentation equals the first for equal arguments");
        }
        _ => assert!(false, "C11.h3 a holder must be able to present more than once (compact)"),
    }
    kani::cover!(true, "end");
    std::mem::forget(first); std::mem::forget(second); std::mem::forget(h);
}

/// JSON: both calls succeed and give the same text; kb_jwt stays absent
#[kani::proof]
#[kani::unwind(8)]
fn c11_holder_two_json_presentations() {
    // concrete parts here: serde_json's serializer over symbolic bytes does not finish in time
    let mut h = mk_holder(SDJWTSerializationFormat::JSON, "p".to_string(), "q".to_string(), "r".to_string());
    let first = present(&mut h);
    assert!(first.is_some(), "C11.j1 first JSON presentation");
    let second = present(&mut h);
    assert!(second.is_some(), "C11.j2 a holder must be able to produce a second JSON presentation");
    kani::cover!(true, "end");
    std::mem::forget(first); std::mem::forget(second); std::mem::forget(h);
}
